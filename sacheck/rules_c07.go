package main

// C07 — consumer-group sessions follow the documented life-cycle and resume from commits.

import (
	"fmt"
	"go/token"
	"sort"
	"strings"

	"golang.org/x/tools/go/ssa"
)

// dynCallOfField: a call (or defer) of the function value stored in field path (s.cancel()).
func dynCallOfField(path string, deferred bool) Ev {
	return func(it Item) bool {
		var cc *ssa.CallCommon
		switch x := it.In.(type) {
		case *ssa.Call:
			if deferred {
				return false
			}
			cc = &x.Call
		case *ssa.Defer:
			if !deferred {
				return false
			}
			cc = &x.Call
		default:
			return false
		}
		return !cc.IsInvoke() && FieldLoad(path)(cc.Value)
	}
}

func init() {
	register(&propDef{
		ID:    "C07",
		Title: "Consumer-group sessions follow the documented life-cycle and resume from commits",
		Explain: "Decides on every path of consumer_group.go: Setup precedes every claim goroutine; release cancels, waits for the claims, then (once) runs Cleanup, closes the offset manager (final commit) and only then stops the heartbeat; Setup/Cleanup/ConsumeClaim are each invoked at exactly one site; Consume releases the session on every path after it was created (C07.order); claim goroutines are counted before they start and always Done/cancel, the background loops cancel the session on exit (C07.claim-wg); " +
			"a claim starts at the offset manager's NextOffset (or the initial position) and falls back to the initial position only on ErrOffsetOutOfRange, reporting the offset actually used (C07.start-offset); join/sync/heartbeat/leave/commit requests carry the member id and generation the coordinator issued (C07.identity); both coordinator switches treat the same codes alike, a fenced member resets its id before rejoining and budgeted retries test the budget (C07.fenced); member state is accessed under the group lock, which Consume holds for the whole session (C07.lock). " +
			"Shared with C06 for the clause 'a final commit of the marked offsets': an acknowledgement clears the dirty flag only if the position still equals the committed one, and the final flush is retried up to Offsets.Retry.Max (C06.keep-dirty, C06.close). " +
			"NOT covered: coverage of the log across sessions, commit-before-return under coordinator faults, the coordinator's own behaviour.",
		Rules: []func(*Ctx){c07Order, c07ClaimWG, c07StartOffset, c07Identity, c07Fenced, c07Lock, c07Dying, c06KeepDirty, c06Commit, c06Close, c06Remaining, c07ErrLost, c06Recover, c12RetryObservesClose, c07FreshRequests, c06ScanBeforeNil, c06FinalFlushIgnoresClosing, c06LoopGoneBeforeFlush, c06RefreshReregisters, c12ClosedTestApartFromSend, c07GatedIdentity, c06EveryFlushAttempts, c06CloseOnCommitError, c07ManagersBeforeSetup, c06FinalFlushExits, c07InitialOffsetFromCoordinator, c06SessionForwards, c07ShutdownArmLeaves, c18Consumer, c06DeferUnlockInLoop, c06RecursiveLock},
	})
}

func c07Order(c *Ctx) {
	p := c.P
	rule := "C07.order"
	c.Doc(rule, "newConsumerGroupSession: handler.Setup precedes every `go` that runs sess.consume; release: cancel() → waitGroup.Wait() → releaseOnce.Do{ Cleanup (if asked) → offsets.Close() → close(hbDying) → <-hbDead }; Setup/Cleanup/ConsumeClaim have exactly one call site; Consume: after the session exists every path to return passes sess.release(true)")
	c.Floor(rule, 10)
	setup := p.CallTo("ConsumerGroupHandler.Setup")
	cleanup := p.CallTo("ConsumerGroupHandler.Cleanup")
	claim := p.CallTo("ConsumerGroupHandler.ConsumeClaim")
	goConsume := func(it Item) bool {
		f := p.GoTarget(it)
		return f != nil && (p.Name(f) == "consumerGroupSession.consume" || hasItem(f, p.CallTo("consumerGroupSession.consume")))
	}
	if fn := c.NeedFn(rule, "newConsumerGroupSession"); fn != nil {
		reg := WholeFn(fn)
		// release() waits for the heartbeat goroutine (<-hbDead): it may only be called once that goroutine exists
		goHB := func(it Item) bool {
			f := p.GoTarget(it)
			return f != nil && p.Name(f) == "consumerGroupSession.heartbeatLoop"
		}
		rel := p.CallTo("consumerGroupSession.release")
		if len(reg.Find(goHB)) == 0 {
			c.Fail(rule, fn, "heartbeat-started-before-release", nil, "newConsumerGroupSession does not start the heartbeat goroutine", nil)
		} else {
			it, path := reg.MustPrecede(goHB, rel)
			c.Check(it.IsZero(), rule, fn, "heartbeat-started-before-release", it.Instr(), "the heartbeat goroutine is started before any path can call sess.release", "newConsumerGroupSession can call sess.release before the heartbeat goroutine was started: release closes hbDying and then waits for hbDead, which only that goroutine closes — Consume hangs holding the group's lock, and Close hangs behind it", path)
		}
		if len(reg.Find(goConsume)) == 0 || len(reg.Find(setup)) == 0 {
			c.Unresolved(rule, "Setup call / claim goroutines in newConsumerGroupSession")
		} else {
			it, path := reg.MustPrecede(setup, goConsume)
			c.Check(it.IsZero(), rule, fn, "setup-before-claims", nil, "Setup precedes every claim goroutine", "a ConsumeClaim goroutine can start before Setup has run", path)
			// a failing Setup releases the session and starts no claim
			es := reg.EstablishingEdges(Cmp{token.NEQ, p.ResultOf(0, "ConsumerGroupHandler.Setup"), IsNil()})
			for _, e := range es {
				sub := reg.From(Pt{e.To, 0})
				g, _ := sub.Reach(goConsume, nil)
				esc, pth := sub.Escape(p.CallTo("consumerGroupSession.release"))
				c.Check(g.IsZero() && !esc, rule, fn, "setup-error-releases", lastInstr(e.From), "a failing Setup releases the session and starts no claim", "after a failing Setup claims are started anyway or the session is not released (heartbeat goroutine leaks, offsets manager open)", pth)
			}
		}
	}
	if fn := c.NeedFn(rule, "consumerGroupSession.release"); fn != nil {
		reg := WholeFn(fn)
		cancel := dynCallOfField("consumerGroupSession.cancel", false)
		wait := p.WG("Wait", "consumerGroupSession.waitGroup")
		once := p.CallTo("(*sync.Once).Do")
		it1, p1 := reg.MustPrecede(cancel, wait)
		it2, p2 := reg.MustPrecede(wait, once)
		okAll := len(reg.Find(cancel)) > 0 && len(reg.Find(wait)) > 0 && len(reg.Find(once)) > 0
		c.Check(okAll && it1.IsZero(), rule, fn, "cancel-before-wait", nil, "cancel() precedes waitGroup.Wait()", "release waits for the claims without cancelling the session first: ConsumeClaim handlers that block on the context never return (Consume hangs)", p1)
		c.Check(okAll && it2.IsZero(), rule, fn, "wait-before-cleanup", nil, "waitGroup.Wait() precedes the once-only cleanup", "Cleanup / final commit can run while ConsumeClaim goroutines are still running (marks made after the final commit are lost)", p2)
		var body *ssa.Function
		for _, s := range reg.Find(once) {
			body = p.closureArg(s, 1)
		}
		if body == nil {
			c.Fail(rule, fn, "release-once", nil, "release body is not run through releaseOnce.Do", nil)
		} else {
			r := WholeFn(body)
			offClose := p.CallTo("offsetManager.Close")
			hbStop := CloseOf(FieldLoad("consumerGroupSession.hbDying"))
			hbWait := RecvFrom(FieldLoad("consumerGroupSession.hbDead"))
			esc, pe := r.Escape(offClose)
			c.Check(!esc, rule, body, "final-commit", nil, "offsets.Close() (final commit) on every path", "release can finish without closing the offset manager: the final commit of marked offsets is skipped", pe)
			it3, p3 := r.MustPrecede(offClose, hbStop)
			c.Check(it3.IsZero() && len(r.Find(hbStop)) > 0, rule, body, "commit-before-heartbeat-stops", nil, "offsets.Close() precedes close(hbDying)", "the heartbeat is stopped before the final commit: the member can be fenced and the commit rejected", p3)
			s4, p4 := r.MustFollow(hbStop, hbWait)
			c.Check(s4.IsZero(), rule, body, "heartbeat-joined", nil, "<-hbDead follows close(hbDying)", "release does not wait for the heartbeat goroutine to exit", p4)
			cs := r.Find(cleanup)
			if len(cs) == 0 {
				c.Fail(rule, body, "cleanup-before-commit", nil, "Cleanup is not called from release", nil)
			}
			for _, cl := range cs {
				esc, p5 := r.From(cl.After()).Escape(offClose)
				rev, _ := r.Reach(IsItem(cl), offClose)
				c.Check(!esc && !rev.IsZero(), rule, body, "cleanup-before-commit", cl.Instr(), "Cleanup runs before offsets.Close() (the final commit)", "Cleanup does not run before the final commit: offsets marked in Cleanup are never committed", p5)
			}
		}
	}
	// single call sites
	for _, m := range []struct {
		name string
		ev   Ev
	}{{"Setup", setup}, {"Cleanup", cleanup}, {"ConsumeClaim", claim}} {
		n := 0
		var where []string
		for _, f := range p.Fns {
			k := len(Info(f).Find(m.ev))
			if k > 0 {
				n += k
				where = append(where, p.Name(f))
			}
		}
		c.Check(n == 1, rule, nil, "single-site:"+m.name, nil, m.name+" invoked at exactly one site ("+strings.Join(where, ",")+")", fmt.Sprintf("%s invoked at %d sites (%s): it can run more than once per session/claim", m.name, n, strings.Join(where, ",")), nil)
	}
	if fn := c.NeedFn(rule, "consumerGroup.Consume"); fn != nil {
		reg := WholeFn(fn)
		rel := p.CallWith("consumerGroupSession.release", 1, ConstBool(true))
		created := p.GoOf("consumerGroup.loopCheckPartitionNumbers")
		if len(reg.Find(created)) == 0 {
			c.Unresolved(rule, "go loopCheckPartitionNumbers in Consume")
		} else {
			s, path := reg.MustFollow(created, rel)
			c.Check(s.IsZero(), rule, fn, "consume-releases", nil, "once the session runs, every path to return passes sess.release(true)", "Consume can return without releasing the session (no Cleanup, no final commit)", path)
			done := func(it Item) bool {
				u, ok := it.In.(*ssa.UnOp)
				return ok && u.Op == token.ARROW
			}
			it, p2 := reg.From(reg.Find(created)[0].After()).Reach(rel, done)
			c.Check(it.IsZero(), rule, fn, "wait-for-session-end", nil, "Consume blocks until the session context is done before releasing", "Consume releases the session without waiting for its end", p2)
		}
	}
}

func c07ClaimWG(c *Ctx) {
	p := c.P
	rule := "C07.claim-wg"
	c.Doc(rule, "each claim goroutine is counted (waitGroup.Add(1)) before it is started and defers waitGroup.Done() and sess.cancel(); heartbeatLoop and loopCheckPartitionNumbers defer cancel(); heartbeatLoop defers close(hbDead)")
	c.Floor(rule, 5)
	wg := "consumerGroupSession.waitGroup"
	if fn := c.NeedFn(rule, "newConsumerGroupSession"); fn != nil {
		fi := Info(fn)
		n := 0
		for _, g := range fi.Find(func(it Item) bool {
			f := p.GoTarget(it)
			return f != nil && (p.Name(f) == "consumerGroupSession.consume" || hasItem(f, p.CallTo("consumerGroupSession.consume")))
		}) {
			n++
			reg := WholeFn(fn)
			if l := fi.InnermostLoop(itemBlock(g)); l != nil {
				reg = fi.Iteration(l)
			}
			it, path := reg.MustPrecede(p.WG("Add", wg), IsItem(g))
			c.Check(it.IsZero(), rule, fn, "add-before-go", g.Instr(), "waitGroup.Add(1) precedes the claim goroutine in the same iteration", "a claim goroutine is started without waitGroup.Add: release does not wait for it (Cleanup runs while ConsumeClaim is running) or Done panics", path)
			cl := p.GoTarget(g)
			entryDefers := func(ev Ev) bool {
				for _, in := range cl.Blocks[0].Instrs {
					if ev(Item{In: in}) {
						return true
					}
				}
				return false
			}
			c.Check(entryDefers(p.WGDefer("Done", wg)), rule, cl, "defer-done", nil, "claim goroutine defers waitGroup.Done()", "claim goroutine does not defer waitGroup.Done() at entry: a panic or early return leaves release waiting forever", nil)
			c.Check(entryDefers(dynCallOfField("consumerGroupSession.cancel", true)), rule, cl, "defer-cancel", nil, "claim goroutine defers sess.cancel(): the first claim to end ends the session", "a returning ConsumeClaim does not cancel the session: the other claims keep running and Consume never returns", nil)
		}
		if n == 0 {
			c.Unresolved(rule, "claim goroutines")
		}
	}
	for _, name := range []string{"consumerGroupSession.heartbeatLoop", "consumerGroup.loopCheckPartitionNumbers"} {
		if fn := c.NeedFn(rule, name); fn != nil {
			ok := false
			for _, in := range fn.Blocks[0].Instrs {
				if dynCallOfField("consumerGroupSession.cancel", true)(Item{In: in}) {
					ok = true
				}
			}
			c.Check(ok, rule, fn, "defer-cancel", nil, "defers cancel(): its exit ends the session", name+" can exit without cancelling the session: a fenced/rebalancing member keeps consuming", nil)
		}
	}
	if fn := c.NeedFn(rule, "consumerGroupSession.heartbeatLoop"); fn != nil {
		ok := false
		for _, in := range fn.Blocks[0].Instrs {
			if DeferCloseOf(FieldLoad("consumerGroupSession.hbDead"))(Item{In: in}) {
				ok = true
			}
		}
		c.Check(ok, rule, fn, "defer-close-hbDead", nil, "defers close(hbDead)", "heartbeatLoop can exit without closing hbDead: release blocks forever", nil)
	}
}

func c07StartOffset(c *Ctx) {
	p := c.P
	rule := "C07.start-offset"
	c.Doc(rule, "consume: the claim's offset is pom.NextOffset() when the partition is managed, else Offsets.Initial; newConsumerGroupClaim: retry with Offsets.Initial only under err == ErrOffsetOutOfRange; InitialOffset() is the offset actually used")
	c.Floor(rule, 4)
	initial := FieldLoad("Config.Consumer.Offsets.Initial")
	if fn := c.NeedFn(rule, "consumerGroupSession.consume"); fn != nil {
		cs := Info(fn).Find(p.CallTo("newConsumerGroupClaim"))
		if len(cs) != 1 {
			c.Unresolved(rule, "newConsumerGroupClaim call in consume")
		} else {
			a := callArgs(cs[0])
			ok := len(a) == 4 && AllEdges(initial, p.ResultOf(0, "partitionOffsetManager.NextOffset"))(a[3])
			c.Check(ok, rule, fn, "claim-offset", cs[0].Instr(), "claim offset ← pom.NextOffset() or Offsets.Initial", "the claim does not start at the offset manager's next offset (got "+describe(a[3])+"): committed progress is ignored", nil)
		}
	}
	// every claimed partition is managed: a session is not started with a partition whose offset manager could not be
	// created (consume would fall back to Offsets.Initial for it and drop its marks)
	if fn := c.NeedFn(rule, "newConsumerGroupSession"); fn != nil {
		reg := WholeFn(fn)
		ms := reg.Find(p.CallTo("OffsetManager.ManagePartition", "offsetManager.ManagePartition"))
		if len(ms) == 0 {
			c.Unresolved(rule, "ManagePartition call in newConsumerGroupSession")
		}
		for _, s := range ms {
			cl, ok := s.In.(*ssa.Call)
			if !ok {
				continue
			}
			var errV ssa.Value
			for _, r := range *cl.Referrers() {
				if ex, ok := r.(*ssa.Extract); ok && ex.Index == 1 {
					errV = ex
				}
			}
			bad := errV == nil
			var wpath []*ssa.BasicBlock
			if errV != nil {
				edges := reg.EstablishingEdges(Cmp{token.NEQ, Same(errV), IsNil()})
				if len(edges) == 0 {
					bad = true
				}
				for _, e := range edges {
					if it, path := reg.From(Pt{e.To, 0}).Reach(ReturnNilErr(), nil); !it.IsZero() {
						bad, wpath = true, path
					}
				}
			}
			c.Check(!bad, rule, fn, "unmanaged-partition-aborts-session", cl, "a partition whose offset manager cannot be created makes session creation fail", "newConsumerGroupSession can return a session although ManagePartition failed for one of its partitions: that claim starts at Offsets.Initial instead of the group's committed offset (records skipped with OffsetNewest) and its marks are dropped", wpath)
		}
	}
	if fn := c.NeedFn(rule, "newConsumerGroupClaim"); fn != nil {
		reg := WholeFn(fn)
		cs := reg.Find(p.CallTo("Consumer.ConsumePartition"))
		outOfRange := Cmp{token.EQL, p.ResultOf(1, "Consumer.ConsumePartition"), p.ErrVal("ErrOffsetOutOfRange")}
		nFallback := 0
		for _, s := range cs {
			a := callArgs(s)
			if len(a) == 3 && initial(a[2]) {
				nFallback++
				g, path := reg.Guarded(s, outOfRange)
				c.Check(g, rule, fn, "fallback-only-out-of-range", s.Instr(), "fallback to Offsets.Initial only under err == ErrOffsetOutOfRange", "the claim falls back to the initial position for errors other than ErrOffsetOutOfRange (records skipped or replayed)", path)
			} else if !(len(a) == 3 && ParamN(3)(a[2])) {
				c.Fail(rule, fn, "first-attempt-offset", s.Instr(), "ConsumePartition is not called with the requested offset", nil)
			}
		}
		if nFallback == 0 {
			c.Fail(rule, fn, "fallback-only-out-of-range", nil, "no fallback to Offsets.Initial when the committed offset is out of range: the claim fails forever", nil)
		}
		lits := p.literalsOf(fn, "consumerGroupClaim")
		if len(lits) == 1 {
			v := lits[0].fields["offset"]
			c.Check(v != nil && AllEdges(ParamN(3), initial)(v), rule, fn, "initial-offset-reported", lits[0].alloc, "claim.offset ← the offset actually used", "InitialOffset() does not report the offset the claim actually started from", nil)
		} else {
			c.Unresolved(rule, "consumerGroupClaim literal")
		}
	}
}

func c07Identity(c *Ctx) {
	p := c.P
	rule := "C07.identity"
	c.Doc(rule, "JoinGroup/SyncGroup/LeaveGroup carry c.groupID and c.memberID, SyncGroup the generation of the join response, Heartbeat the session's member id and generation, the session and its offset manager are created with the join response's member id and generation")
	c.Floor(rule, 7)
	lit := func(fnName, typ string, want map[string]VM) {
		fn := c.NeedFn(rule, fnName)
		if fn == nil {
			return
		}
		ls := p.literalsOf(fn, typ)
		if len(ls) != 1 {
			c.Unresolved(rule, typ+" literal in "+fnName)
			return
		}
		var bad []string
		for f, m := range want {
			if v := ls[0].fields[f]; v == nil || !m(v) {
				bad = append(bad, f)
			}
		}
		sort.Strings(bad)
		c.Check(len(bad) == 0, rule, fn, typ, ls[0].alloc, typ+" carries the group's identity fields", typ+" field(s) "+strings.Join(bad, ",")+" do not carry the identity the coordinator issued", nil)
	}
	gid, mid := FieldLoad("consumerGroup.groupID"), FieldLoad("consumerGroup.memberID")
	lit("consumerGroup.joinGroupRequest", "JoinGroupRequest", map[string]VM{"GroupId": gid, "MemberId": mid})
	lit("consumerGroup.syncGroupRequest", "SyncGroupRequest", map[string]VM{"GroupId": gid, "MemberId": mid, "GenerationId": ParamN(3)})
	lit("consumerGroup.heartbeatRequest", "HeartbeatRequest", map[string]VM{"GroupId": gid, "MemberId": ParamN(2), "GenerationId": ParamN(3)})
	lit("consumerGroup.leave", "LeaveGroupRequest", map[string]VM{"GroupId": gid, "MemberId": mid})
	if fn := c.NeedFn(rule, "consumerGroup.newSession"); fn != nil {
		fi := Info(fn)
		for _, s := range fi.Find(p.CallTo("consumerGroup.syncGroupRequest")) {
			a := callArgs(s)
			c.Check(len(a) == 4 && FieldLoad("JoinGroupResponse.GenerationId")(a[3]), rule, fn, "sync-generation", s.Instr(), "sync uses the generation of the join response", "SyncGroup is sent with a generation other than the join response's", nil)
		}
		for _, s := range fi.Find(p.CallTo("newConsumerGroupSession")) {
			a := callArgs(s)
			ok := len(a) == 6 && FieldLoad("JoinGroupResponse.MemberId")(a[3]) && FieldLoad("JoinGroupResponse.GenerationId")(a[4])
			c.Check(ok, rule, fn, "session-identity", s.Instr(), "session created with the member id and generation of the join response", "the session is created with a member id/generation other than the one the coordinator issued", nil)
		}
	}
	if fn := c.NeedFn(rule, "newConsumerGroupSession"); fn != nil {
		for _, s := range Info(fn).Find(p.CallTo("newOffsetManagerFromClient")) {
			a := callArgs(s)
			ok := len(a) == 4 && FieldLoad("consumerGroup.groupID")(a[0]) && ParamN(3)(a[1]) && ParamN(4)(a[2])
			c.Check(ok, rule, fn, "offset-manager-identity", s.Instr(), "offset manager created with the session's group, member id and generation", "commits of this session would carry another member id/generation", nil)
		}
		ls := p.literalsOf(fn, "consumerGroupSession")
		if len(ls) == 1 {
			ok := ls[0].fields["memberID"] != nil && ParamN(3)(ls[0].fields["memberID"]) && ls[0].fields["generationID"] != nil && ParamN(4)(ls[0].fields["generationID"])
			c.Check(ok, rule, fn, "session-fields", ls[0].alloc, "session.memberID/generationID ← the issued ones", "session stores another member id/generation than issued", nil)
		}
	}
	if fn := c.NeedFn(rule, "consumerGroupSession.heartbeatLoop"); fn != nil {
		for _, s := range Info(fn).Find(p.CallTo("consumerGroup.heartbeatRequest")) {
			a := callArgs(s)
			ok := len(a) == 4 && FieldLoad("consumerGroupSession.memberID")(a[2]) && FieldLoad("consumerGroupSession.generationID")(a[3])
			c.Check(ok, rule, fn, "heartbeat-identity", s.Instr(), "heartbeat carries the session's (immutable) member id and generation", "heartbeats carry the group's mutable member id instead of the session's: after a reset they name another member", nil)
		}
	}
}

func c07Fenced(c *Ctx) {
	p := c.P
	rule := "C07.fenced"
	c.Doc(rule, "newSession: the switch on the join answer and the switch on the sync answer partition the error codes identically; on ErrUnknownMemberId/ErrIllegalGeneration c.memberID = \"\" precedes the recursive newSession; every retryNewSession is guarded by retries > 0")
	c.Floor(rule, 4)
	fn := c.NeedFn(rule, "consumerGroup.newSession")
	if fn == nil {
		return
	}
	reg := WholeFn(fn)
	groups := func(path string) []string {
		var out []string
		for _, ks := range constCases(fn, FieldLoad(path)) {
			out = append(out, strings.Join(p.kerrNames(ks), "+"))
		}
		sort.Strings(out)
		return out
	}
	jg, sg := groups("JoinGroupResponse.Err"), groups("SyncGroupResponse.Err")
	// (the ErrNoError arm may be an `if` of its own: two groups — the fenced codes and the rebalance codes — are the
	// least that must be there, and must be the same for both answers)
	hasFenced := false
	for _, g := range jg {
		if strings.Contains(g, "ErrUnknownMemberId") {
			hasFenced = true
		}
	}
	c.Check(len(jg) >= 2 && hasFenced && strings.Join(jg, " | ") == strings.Join(sg, " | "), rule, fn, "sibling-switches", nil, "join and sync switches have the same case partition: "+strings.Join(jg, " | "),
		"the join switch ["+strings.Join(jg, " | ")+"] and the sync switch ["+strings.Join(sg, " | ")+"] classify coordinator answers differently", nil)
	unk, _ := p.ConstNamed("ErrUnknownMemberId")
	ill, _ := p.ConstNamed("ErrIllegalGeneration")
	reset := StoreTo(func(v ssa.Value) bool {
		k, ok := v.(*ssa.Const)
		return ok && k.Value != nil && k.Value.ExactString() == `""`
	}, "consumerGroup.memberID")
	recur := p.CallTo("consumerGroup.newSession")
	n := 0
	for _, path := range []string{"JoinGroupResponse.Err", "SyncGroupResponse.Err"} {
		for tgt, ks := range constCases(fn, FieldLoad(path)) {
			has := false
			for _, k := range ks {
				if k == unk || k == ill {
					has = true
				}
			}
			if !has {
				continue
			}
			n++
			sub := reg.From(Pt{tgt, 0})
			it, pth := sub.MustPrecede(reset, Or(recur, IsReturn()))
			c.Check(it.IsZero(), rule, fn, "fenced-resets-id:"+path, tgt.Instrs[0], "a fenced member clears its member id before rejoining", "on ErrUnknownMemberId/ErrIllegalGeneration the member rejoins (or returns) without clearing its member id: it is rejected again forever", pth)
		}
	}
	if n < 2 {
		c.Fail(rule, fn, "fenced-resets-id", nil, "expected a fenced-member arm in both the join and the sync switch", nil)
	}
	for _, s := range reg.Find(p.CallTo("consumerGroup.retryNewSession")) {
		g, pth := reg.Guarded(s, Cmp{token.GTR, ParamN(4), ConstInt(0)})
		c.Check(g, rule, fn, "retry-budget", s.Instr(), "retry guarded by retries > 0", "a retry is attempted without testing the remaining budget: unbounded recursion while the coordinator is unavailable", pth)
	}
}

func c07Lock(c *Ctx) {
	p := c.P
	rule := "C07.lock"
	if fn := c.NeedFn(rule, "consumerGroup.Consume"); fn != nil {
		reg := WholeFn(fn)
		lock := p.CallWith("(*sync.Mutex).Lock", 0, FieldAddrOf("consumerGroup.lock"))
		it, path := reg.MustPrecede(lock, p.CallTo("consumerGroup.newSession"))
		deferred := hasItem(fn, func(it Item) bool {
			d, ok := it.In.(*ssa.Defer)
			return ok && p.CalleeName(&d.Call) == "(*sync.Mutex).Unlock" && FieldAddrOf("consumerGroup.lock")(d.Call.Args[0])
		})
		explicit := hasItem(fn, p.CallWith("(*sync.Mutex).Unlock", 0, FieldAddrOf("consumerGroup.lock")))
		c.Check(it.IsZero() && deferred && !explicit, rule, fn, "session-under-lock", nil, "Consume holds c.lock from before newSession until it returns (deferred unlock)", "Consume does not hold the group lock for the whole session: a concurrent Consume/leave runs a second session with the same member", path)
	}
	runLockset(c, rule, []guardedField{
		{"consumerGroup.memberID", "consumerGroup.lock", "member id issued by the coordinator"},
		{"consumerGroup.userData", "consumerGroup.lock", "user data of the last sync"},
	}, 3)
}
