package main

// C12 — shutdown always completes: no hang, no panic, channels closed (structural clauses).

import (
	"fmt"
	"go/constant"
	"go/token"
	"go/types"
	"sort"
	"strings"

	"golang.org/x/tools/go/ssa"
)

func isWaitGroupPtr(t types.Type) bool {
	pt, ok := t.(*types.Pointer)
	if !ok {
		return false
	}
	n, pk := NamedOf(pt.Elem())
	return n == "WaitGroup" && pk == "sync"
}

// wgOf: the WaitGroup object a call operates on: local Alloc / captured cell (canonical) or field path.
func wgKey(v ssa.Value) (key string, obj ssa.Value) {
	switch x := v.(type) {
	case *ssa.Alloc:
		return "local:" + x.Comment, x
	case *ssa.FreeVar:
		return "local:" + x.Name(), x
	case *ssa.FieldAddr:
		ch := fieldChain(x)
		if len(ch) > 0 {
			return ch[len(ch)-1].owner + "." + ch[len(ch)-1].name, nil
		}
	}
	return "", nil
}

// c12Pairing: every WaitGroup.Add(k) on a local WaitGroup (fan-out helpers) or on syncProducer.wg is
// matched on every path by k goroutines that defer Done (or Done calls).
func c12Pairing(c *Ctx) {
	p := c.P
	rule := "C12.pairing"
	c.Doc(rule, "fan-out WaitGroups (function-local ones, syncProducer.wg): after wg.Add(k) every path of the iteration/function starts k goroutines whose body defers wg.Done() on the same WaitGroup (or calls Done); otherwise wg.Wait() never returns. The pipeline WaitGroups are covered by C01.emit/marker (inFlight), C03.acks (acks) and C07.claim-wg (session)")
	c.Floor(rule, 3)
	for _, fn := range p.Fns {
		if p.inFile(fn, "mockbroker.go") || p.inFile(fn, "mockresponses.go") {
			continue // test infrastructure shipped in the package; outside the property's anchors
		}
		fi := Info(fn)
		for _, s := range fi.Find(func(it Item) bool {
			cc, ok := callCommon(it)
			return ok && p.CalleeName(cc) == "(*sync.WaitGroup).Add"
		}) {
			cc, _ := callCommon(s)
			key, obj := wgKey(cc.Args[0])
			if key == "" {
				continue
			}
			isLocal := strings.HasPrefix(key, "local:")
			if !isLocal && key != "syncProducer.wg" {
				continue // pipeline groups: dedicated rules
			}
			k := int64(1)
			if kc, ok := cc.Args[1].(*ssa.Const); ok && kc.Value != nil && kc.Value.Kind() == constant.Int {
				k = kc.Int64()
			} else {
				c.Fail(rule, fn, "add:"+key, s.Instr(), "WaitGroup.Add with a non-constant count on a fan-out group: pairing undecidable", nil)
				continue
			}
			sameWG := func(a ssa.Value) bool {
				k2, o2 := wgKey(a)
				if isLocal {
					// captured cell in the goroutine closure: bound to the same Alloc
					if fv, ok := o2.(*ssa.FreeVar); ok {
						cl := fv.Parent()
						for i, v := range cl.FreeVars {
							if v != fv {
								continue
							}
							for _, b := range fn.Blocks {
								for _, in := range b.Instrs {
									if mc, ok := in.(*ssa.MakeClosure); ok && mc.Fn == cl && mc.Bindings[i] == obj {
										return true
									}
								}
							}
						}
						return false
					}
					return o2 != nil && o2 == obj
				}
				return k2 == key
			}
			doneIn := func(f *ssa.Function) bool {
				for _, in := range f.Blocks[0].Instrs {
					if d, ok := in.(*ssa.Defer); ok && p.CalleeName(&d.Call) == "(*sync.WaitGroup).Done" && sameWG(d.Call.Args[0]) {
						return true
					}
				}
				// or a plain Done that no return of the goroutine gets past
				isDone := func(it Item) bool {
					if _, isDefer := it.In.(*ssa.Defer); isDefer {
						return false
					}
					cc2, ok := callCommon(it)
					return ok && p.CalleeName(cc2) == "(*sync.WaitGroup).Done" && sameWG(cc2.Args[0])
				}
				if len(WholeFn(f).Find(isDone)) > 0 {
					if esc, _ := WholeFn(f).Escape(isDone); !esc {
						return true
					}
				}
				return false
			}
			spawn := func(it Item) bool {
				if f := p.GoTarget(it); f != nil {
					if doneIn(f) {
						return true
					}
					// the WaitGroup handed to the goroutine as an argument
					if g, ok := it.In.(*ssa.Go); ok && !g.Call.IsInvoke() {
						for i, a := range g.Call.Args {
							if i < len(f.Params) && isWaitGroupPtr(a.Type()) && (a == obj || sameWG(a)) {
								for _, in := range f.Blocks[0].Instrs {
									if d, ok := in.(*ssa.Defer); ok && p.CalleeName(&d.Call) == "(*sync.WaitGroup).Done" && d.Call.Args[0] == ssa.Value(f.Params[i]) {
										return true
									}
								}
							}
						}
					}
					return false
				}
				if cc2, ok := callCommon(it); ok && p.CalleeName(cc2) == "(*sync.WaitGroup).Done" && sameWG(cc2.Args[0]) {
					return true
				}
				return false
			}
			reg := WholeFn(fn)
			label := "function"
			if l := fi.InnermostLoop(itemBlock(s)); l != nil {
				reg = fi.Iteration(l)
				label = "iteration"
			}
			after := reg.From(s.After())
			// k spawns on every path: peel them one by one
			ok := true
			var path []*ssa.BasicBlock
			starts := []Pt{s.After()}
			for i := int64(0); i < k && ok; i++ {
				r := reg.From(starts...)
				if esc, pth := r.Escape(spawn); esc {
					ok, path = false, pth
					break
				}
				var next []Pt
				for _, sp := range r.Find(spawn) {
					// only the first spawn of each path: reachable without passing another spawn
					sp := sp
					other := func(it Item) bool { return spawn(it) && !IsItem(sp)(it) }
					if hit, _ := r.Reach(IsItem(sp), other); !hit.IsZero() {
						next = append(next, sp.After())
					}
				}
				starts = next
			}
			_ = after
			c.Check(ok, rule, fn, "add:"+key, s.Instr(), fmt.Sprintf("Add(%d) is followed on every path of the %s by %d goroutine(s) that defer Done", k, label, k),
				fmt.Sprintf("after WaitGroup.Add(%d) a path of the %s starts fewer than %d goroutines that call Done (e.g. a `continue` after the Add): wg.Wait() blocks forever", k, label, k), path)
		}
	}
}

func init() {
	register(&propDef{
		ID:    "C12",
		Title: "Shutdown always completes: no hang, no panic, channels closed",
		Explain: "Decides structural necessary conditions of clean shutdown: WaitGroup Add/Done pairing of the fan-out helpers (C12.pairing; the pipeline groups are covered by C01/C03/C07 rules that this property shares); a frozen table of close() sites per channel field with their once/defer attributes, so that a second closer or a closer outside its sync.Once is reported (C12.close-sites); the close/wait hand-shakes of client, broker, offset manager, heartbeat, partition consumer and subscription manager (C12.handshakes); every blocking select of the long-running loops has a case on its component's shutdown channel (C12.dying); for channels closed by their only sender, the sender table (C12.who-sends); the closure handed to a sync.Once in a Close path has no return that skips teardown its normal exit performs (C12.once-complete); every subscription of a broker worker that gives up is handed back to its dispatcher exactly once, dying ones included — the hand-over is what lets a closing partition consumer finish (C03.redispatch, shared). " +
			"NOT covered: absence of deadlock in general, send/close races that need a happens-before argument (consumerGroup.errors, partitionConsumer.errors/trigger).",
		Rules: []func(*Ctx){c12Pairing, c12CloseSites, c12OnceComplete, c12LockReleased, c12Refcount, c12Handshakes, c12Dying, c12WhoSends, c12SendVsCloseLock, c01Shutdown, c01BrokerShutdown, c01Markers, c03Redispatch, c03ErrLost, c07Order, c01CloseDrains, c12RetryObservesClose, c12DispatcherObservesDying, c12NoDetachedSend, c01AsyncCloseNonBlocking, c03TimerRearmed, c12ClosedTestApartFromSend, c01ShutdownSelects, c03VerdictConsumed, c07Fenced, c14ReopenableAfterClose, c14CloseTeardownComplete, c03HandedOverBatch, c12LoopVarCapture, c12ShutdownArmLeaves, c15Lock, c12DeferUnlockInLoop, c12RecursiveLock},
	})
}

// closeSite describes one close(ch) in the program.
type closeSite struct {
	fn       *ssa.Function
	in       ssa.Instruction
	field    string // "Owner.field" or "local"
	once     bool
	deferred bool
	onceObj  string // the sync.Once the enclosing closure is run by ("Owner.field"), when once
}

func (p *Program) closeSites() []closeSite {
	// closures run by sync.Once.Do (directly or nested inside such a closure)
	onceBodies := map[*ssa.Function]bool{}
	onceOf := map[*ssa.Function]string{}
	for _, fn := range p.Fns {
		for _, s := range Info(fn).Find(p.CallTo("(*sync.Once).Do")) {
			if cl := p.closureArg(s, 1); cl != nil {
				onceBodies[cl] = true
				if a := callArgs(s); len(a) > 0 {
					if ch := fieldChain(a[0]); len(ch) > 0 {
						onceOf[cl] = ch[len(ch)-1].owner + "." + ch[len(ch)-1].name
					}
				}
			}
		}
	}
	inOnce := func(f *ssa.Function) bool {
		for x := f; x != nil; x = x.Parent() {
			if onceBodies[x] {
				return true
			}
		}
		return false
	}
	onceObjOf := func(f *ssa.Function) string {
		for x := f; x != nil; x = x.Parent() {
			if onceBodies[x] {
				return onceOf[x]
			}
		}
		return ""
	}
	var out []closeSite
	for _, fn := range p.Fns {
		if p.inFile(fn, "mockbroker.go") || p.inFile(fn, "mockresponses.go") || p.inFile(fn, "mockkerberos.go") {
			continue // test infrastructure shipped in the package
		}
		for _, b := range fn.Blocks {
			for _, in := range b.Instrs {
				var cc *ssa.CallCommon
				deferred := false
				switch x := in.(type) {
				case *ssa.Call:
					cc = &x.Call
				case *ssa.Defer:
					cc, deferred = &x.Call, true
				default:
					continue
				}
				bi, ok := cc.Value.(*ssa.Builtin)
				if !ok || bi.Name() != "close" || len(cc.Args) != 1 {
					continue
				}
				field := "local"
				if ch := fieldChain(strip(cc.Args[0])); len(ch) > 0 && isFieldRead(strip(cc.Args[0])) {
					last := ch[len(ch)-1]
					field = last.owner + "." + last.name
					if fn.Pkg == p.Mocks || (fn.Parent() != nil && rootFn(fn).Pkg == p.Mocks) {
						field = "mocks." + field
					}
				}
				out = append(out, closeSite{fn, in, field, inOnce(fn), deferred, onceObjOf(fn)})
			}
		}
	}
	return out
}

func rootFn(f *ssa.Function) *ssa.Function {
	for f.Parent() != nil {
		f = f.Parent()
	}
	return f
}

// closeTable: field → allowed number of close sites and required attribute ("once", "defer", "").
// From the SSA inventory of the pinned tree (DESIGN.md Appendix C); one line of reason each.
var closeTable = map[string]struct {
	n      int
	attr   string
	reason string
}{
	"asyncProducer.input":              {1, "", "shutdown, after inFlight.Wait"},
	"asyncProducer.retries":            {1, "", "shutdown, after inFlight.Wait"},
	"asyncProducer.errors":             {1, "", "shutdown, after inFlight.Wait"},
	"asyncProducer.successes":          {1, "", "shutdown, after inFlight.Wait"},
	"brokerProducer.input":             {1, "", "refcount reaches 0 under brokerLock"},
	"brokerProducer.output":            {1, "", "brokerProducer.shutdown"},
	"brokerProducer.stopchan":          {1, "", "brokerProducer.shutdown"},
	"brokerProducer.abandoned":         {1, "", "under brokerLock, entry removed from the map"},
	"partitionConsumer.dying":          {1, "once", "AsyncClose"},
	"partitionConsumer.trigger":        {3, "", "dispatcher on dying; broker worker on dying; broker worker on offset-out-of-range (each drops the subscription)"},
	"partitionConsumer.feeder":         {1, "", "dispatcher exit"},
	"partitionConsumer.messages":       {1, "", "feeder exit"},
	"partitionConsumer.errors":         {1, "", "feeder exit"},
	"brokerConsumer.input":             {1, "", "refcount 0 under consumer.lock"},
	"brokerConsumer.wait":              {1, "", "subscriptionManager exit"},
	"brokerConsumer.newSubscriptions":  {1, "", "subscriptionManager exit"},
	"consumerGroup.closed":             {1, "once", "Close"},
	"consumerGroup.errors":             {1, "once", "Close (nested goroutine)"},
	"consumerGroupSession.hbDying":     {1, "once", "release"},
	"consumerGroupSession.hbDead":      {1, "defer", "heartbeatLoop exit"},
	"offsetManager.closing":            {1, "once", "Close"},
	"offsetManager.closed":             {1, "defer", "mainLoop exit"},
	"partitionOffsetManager.errors":    {1, "once", "release"},
	"client.closer":                    {1, "", "Close, guarded by Closed()"},
	"client.closed":                    {2, "", "updater [defer]; NewClient error path before the updater starts"},
	"Broker.responses":                 {1, "", "Close under Broker.lock, conn != nil"},
	"Broker.done":                      {1, "", "responseReceiver exit"},
	"mocks.AsyncProducer.input":        {1, "", "AsyncClose"},
	"mocks.AsyncProducer.successes":    {1, "", "goroutine exit"},
	"mocks.AsyncProducer.errors":       {1, "", "goroutine exit"},
	"mocks.AsyncProducer.closed":       {1, "", "goroutine exit"},
	"mocks.PartitionConsumer.messages": {1, "once", "AsyncClose/Close"},
	"mocks.PartitionConsumer.errors":   {1, "once", "AsyncClose/Close"},
}

func c12CloseSites(c *Ctx) {
	p := c.P
	rule := "C12.close-sites"
	c.Doc(rule, "frozen table: each channel field is closed at no more than its tabled number of sites, and sites tabled `once`/`defer` are inside a sync.Once.Do closure / deferred; a closed field that is not tabled is reported")
	c.Floor(rule, 30)
	sites := p.closeSites()
	byField := map[string][]closeSite{}
	for _, s := range sites {
		byField[s.field] = append(byField[s.field], s)
	}
	fields := make([]string, 0, len(byField))
	for f := range byField {
		fields = append(fields, f)
	}
	sort.Strings(fields)
	for _, f := range fields {
		ss := byField[f]
		if f == "local" {
			c.Notes = append(c.Notes, fmt.Sprintf("%s: %d close sites on function-local channels (not tabled)", rule, len(ss)))
			continue
		}
		t, ok := closeTable[f]
		if !ok {
			c.Fail(rule, ss[0].fn, "untabled:"+f, ss[0].in, "close of a channel field that is not in the close-site table: add it with its closer discipline (who, once?)", nil)
			continue
		}
		okN := len(ss) <= t.n
		if !okN && t.attr == "once" {
			// several sites, all inside closures run by one and the same sync.Once: at most one of them ever executes
			same := ss[0].onceObj != ""
			for _, s := range ss {
				if !s.once || s.onceObj != ss[0].onceObj {
					same = false
				}
			}
			okN = same
		}
		okAttr := true
		for _, s := range ss {
			switch t.attr {
			case "once":
				okAttr = okAttr && s.once
			case "defer":
				okAttr = okAttr && s.deferred
			}
		}
		var where []string
		for _, s := range ss {
			where = append(where, p.Name(s.fn))
		}
		c.Check(okN && okAttr, rule, ss[0].fn, "field:"+f, ss[0].in, fmt.Sprintf("%d site(s) [%s] in %s — %s", len(ss), t.attr, strings.Join(where, ","), t.reason),
			fmt.Sprintf("%s is closed at %d site(s) (%s), table allows %d with attribute %q: a second close of the same channel panics", f, len(ss), strings.Join(where, ","), t.n, t.attr), nil)
	}
	for f := range closeTable {
		if _, ok := byField[f]; !ok {
			c.Fail(rule, nil, "field:"+f, nil, "tabled channel is never closed: its readers never terminate", nil)
		}
	}
}

// c12OnceComplete: the closure handed to sync.Once.Do in a Close/release path runs at most once in the
// component's life; a `return` in its middle skips the remaining teardown for good (the second Close is a
// no-op).  Every step that lies on every path to the closure's final return must lie on every path to each
// of its returns.
func c12OnceComplete(c *Ctx) {
	p := c.P
	rule := "C12.once-complete"
	c.Doc(rule, "every function literal passed to (*sync.Once).Do: each teardown step (call, go statement, close, channel receive) that is on every path to the closure's last return is on every path to each of its returns — no early return skips teardown that the normal path performs")
	c.Floor(rule, 5)
	for _, fn := range p.Fns {
		if fn.Pkg != p.Sarama || p.inFile(fn, "mockbroker.go") {
			continue
		}
		for _, s := range Info(fn).Find(p.CallTo("(*sync.Once).Do")) {
			cl := p.closureArg(s, 1)
			if cl == nil {
				continue
			}
			// returns of the closure, the textually last one is the normal exit
			var rets []*ssa.Return
			for _, b := range cl.Blocks {
				if r, ok := lastInstr(b).(*ssa.Return); ok && !IsRecoverBlock(b) {
					rets = append(rets, r)
				}
			}
			if len(rets) == 0 {
				continue
			}
			// the normal exit: falling off the end of the closure (go/ssa emits that return without a position),
			// else the textually last return statement
			last := rets[0]
			for _, r := range rets {
				switch {
				case !last.Pos().IsValid():
				case !r.Pos().IsValid(), r.Pos() > last.Pos():
					last = r
				}
			}
			reg := WholeFn(cl)
			isStep := func(it Item) bool {
				switch x := it.In.(type) {
				case *ssa.Call:
					if b, ok := x.Call.Value.(*ssa.Builtin); ok {
						return b.Name() == "close"
					}
					return true
				case *ssa.Go, *ssa.Defer:
					return true
				case *ssa.UnOp:
					return x.Op == token.ARROW
				}
				return false
			}
			bad := ""
			var at ssa.Instruction
			var path []*ssa.BasicBlock
			for _, st := range reg.Find(isStep) {
				// must-step of the normal exit?
				if it, _ := reg.MustPrecede(IsItem(st), Is(last)); !it.IsZero() {
					continue
				}
				for _, r := range rets {
					if r == last {
						continue
					}
					if it, pth := reg.MustPrecede(IsItem(st), Is(r)); !it.IsZero() {
						bad, at, path = describeStep(p, st), r, pth
					}
				}
			}
			c.Check(bad == "", rule, fn, "no-early-return-skips-teardown", at, "no return of the once-closure skips a step its normal exit always performs",
				"the closure handed to sync.Once.Do can return before "+bad+", which its normal exit always performs: the teardown is skipped and can never be repeated (output channel left open, embedded client / goroutines leaked)", path)
		}
	}
}

func describeStep(p *Program, it Item) string {
	switch x := it.In.(type) {
	case *ssa.Call:
		if b, ok := x.Call.Value.(*ssa.Builtin); ok {
			return b.Name() + "(" + describe(x.Call.Args[0]) + ")"
		}
		return "the call of " + p.CalleeName(&x.Call)
	case *ssa.Go:
		return "the go statement at " + p.Pos(x)
	case *ssa.UnOp:
		return "the receive from " + describe(x.X)
	}
	return "a teardown step"
}

// c12LockReleased: a mutex taken in a function is released on every path out of it (directly or by a defer);
// a path that returns with the lock held blocks every later operation on the component, Close included.
func c12LockReleased(c *Ctx) {
	p := c.P
	rule := "C12.lock-released"
	c.Doc(rule, "every sync.Mutex/RWMutex Lock()/RLock() in the two packages is followed on every path to the function's end by the matching Unlock()/RUnlock() on the same mutex, or a defer of it is registered in the function; the one tabled hand-off is Broker.Open, whose spawned goroutine defers the Unlock")
	c.Floor(rule, 60)
	lockOp := func(cc *ssa.CallCommon) (string, ssa.Value) {
		f := cc.StaticCallee()
		if f == nil || len(cc.Args) == 0 {
			return "", nil
		}
		switch f.String() {
		case "(*sync.Mutex).Lock", "(*sync.RWMutex).Lock":
			return "Lock", cc.Args[0]
		case "(*sync.RWMutex).RLock":
			return "RLock", cc.Args[0]
		case "(*sync.Mutex).Unlock", "(*sync.RWMutex).Unlock":
			return "Unlock", cc.Args[0]
		case "(*sync.RWMutex).RUnlock":
			return "RUnlock", cc.Args[0]
		}
		return "", nil
	}
	for _, fn := range p.Fns {
		if p.inFile(fn, "mockbroker.go") {
			continue
		}
		fi := Info(fn)
		fi.Each(func(it Item) {
			cl, ok := it.In.(*ssa.Call)
			if !ok {
				return
			}
			kind, recv := lockOp(&cl.Call)
			if kind != "Lock" && kind != "RLock" {
				return
			}
			want := map[string]string{"Lock": "Unlock", "RLock": "RUnlock"}[kind]
			rel := func(x Item) bool {
				switch y := x.In.(type) {
				case *ssa.Call:
					k, r := lockOp(&y.Call)
					return k == want && samePath(r, recv)
				case *ssa.Defer:
					k, r := lockOp(&y.Call)
					return k == want && samePath(r, recv)
				}
				return false
			}
			deferred := len(fi.Find(func(x Item) bool { _, isD := x.In.(*ssa.Defer); return isD && rel(x) })) > 0
			esc, path := false, []*ssa.BasicBlock(nil)
			if !deferred {
				esc, path = WholeFn(fn).From(it.After()).Escape(rel)
			}
			if esc && p.Name(fn) == "Broker.Open" {
				// hand-off: a goroutine started after the Lock defers the Unlock of the same field
				handed := false
				for _, g := range WholeFn(fn).From(it.After()).Find(func(x Item) bool { _, isGo := x.In.(*ssa.Go); return isGo }) {
					for _, a := range g.In.(*ssa.Go).Call.Args {
						if body := p.FuncOfValue(a); body != nil {
							for _, cand := range append([]*ssa.Function{body}, body.AnonFuncs...) {
								if hasItem(cand, func(x Item) bool {
									d, isD := x.In.(*ssa.Defer)
									if !isD {
										return false
									}
									k, r := lockOp(&d.Call)
									if k != want {
										return false
									}
									fa, ok1 := r.(*ssa.FieldAddr)
									fb, ok2 := recv.(*ssa.FieldAddr)
									return ok1 && ok2 && fa.Field == fb.Field
								}) {
									handed = true
								}
							}
						}
					}
				}
				if handed {
					c.OK(rule, fn, "lock-handed-to-goroutine", cl, "Open keeps the lock for the connecting goroutine, which defers the Unlock")
					return
				}
			}
			c.Check(!esc, rule, fn, "released:"+kind, cl, "the lock is released on every path (or by a defer)",
				"a path leaves the function with the mutex still locked: every later operation on this component, Close included, blocks forever", path)
		})
	}
}

// c12Refcount: a partition consumer holds one reference on its broker worker exactly while child.broker is
// non-nil.  The worker's input is closed when the count reaches zero; a reference given back twice takes a
// sibling's reference away, the worker exits under it and the sibling can never be closed.
func c12Refcount(c *Ctx) {
	p := c.P
	rule := "C12.refcount"
	c.Doc(rule, "partitionConsumer.dispatcher: every unrefBrokerConsumer is applied to child.broker under child.broker != nil, and inside the dispatch loop it is followed on every path of the iteration by child.broker = nil before dispatch() is called; child.broker is otherwise stored only from refBrokerConsumer's result")
	c.Floor(rule, 3)
	fn := c.NeedFn(rule, "partitionConsumer.dispatcher")
	if fn == nil {
		return
	}
	fi := Info(fn)
	brokerF := FieldLoad("partitionConsumer.broker")
	unref := p.CallTo("consumer.unrefBrokerConsumer")
	setNil := StoreTo(IsNil(), "partitionConsumer.broker")
	us := fi.Find(unref)
	if len(us) == 0 {
		c.Unresolved(rule, "unrefBrokerConsumer in partitionConsumer.dispatcher")
	}
	for _, u := range us {
		a := callArgs(u)
		reg := WholeFn(fn)
		inLoop := fi.InnermostLoop(itemBlock(u))
		if inLoop != nil {
			// the outermost loop (over child.trigger)
			for _, l2 := range fi.Loops {
				if l2.Blocks[itemBlock(u)] && len(l2.Blocks) > len(inLoop.Blocks) {
					inLoop = l2
				}
			}
			reg = fi.Iteration(inLoop)
		}
		g, path := reg.Guarded(u, Cmp{token.NEQ, brokerF, IsNil()})
		okArg := len(a) == 2 && brokerF(a[1])
		c.Check(g && okArg, rule, fn, "unref-what-is-held", u.Instr(), "the reference given back is child.broker's, under child.broker != nil", "unrefBrokerConsumer is called with something else than a non-nil child.broker: a reference is given back that is not held", path)
		if inLoop != nil {
			esc, pth := reg.From(u.After()).Escape(setNil)
			it, pth2 := reg.From(u.After()).MustPrecede(setNil, p.CallTo("partitionConsumer.dispatch"))
			if esc {
				pth2 = pth
			}
			c.Check(!esc && it.IsZero(), rule, fn, "unref-then-forget", u.Instr(), "after giving the reference back child.broker is set to nil before the re-dispatch",
				"inside the dispatch loop a reference is given back while child.broker keeps pointing at the worker: when the re-dispatch fails, the next round (or the exit path) gives the same reference back again — the count reaches zero under a sibling partition consumer, the worker exits and the sibling's Close never completes", pth2)
		}
	}
	// anywhere else: whoever gives child.broker's reference back replaces the pointer before returning, on every path
	// (a failure return that leaves child.broker pointing at the released worker makes the next attempt release it again)
	for _, f := range p.Fns {
		if rootOf(f).Pkg != p.Sarama || f == fn {
			continue
		}
		for _, u := range Info(f).Find(unref) {
			if u.Instr() == nil || u.Instr().Parent() != f {
				continue
			}
			a := callArgs(u)
			if len(a) != 2 || !brokerF(a[1]) {
				continue
			}
			esc, pth := WholeFn(f).From(u.After()).Escape(StoreTo(nil, "partitionConsumer.broker"))
			c.Check(!esc, rule, f, "unref-then-replace", u.Instr(), "after giving the reference back child.broker is replaced on every path to the return",
				p.Name(f)+" gives child.broker's reference back and can return (on a failure path) with child.broker still pointing at the released worker: the next attempt gives the same reference back again — the count reaches zero under a sibling partition consumer, the worker exits and the sibling's Close never completes", pth)
		}
	}
	// who sets child.broker
	for _, f := range p.Fns {
		if f.Pkg != p.Sarama {
			continue
		}
		for _, s := range Info(f).Find(StoreTo(nil, "partitionConsumer.broker")) {
			st := s.In.(*ssa.Store)
			if IsNil()(st.Val) {
				continue
			}
			if _, isAlloc := fieldChain(st.Addr)[0].base.(*ssa.Alloc); isAlloc {
				continue
			}
			c.Check(p.ResultOf(0, "consumer.refBrokerConsumer")(st.Val), rule, f, "broker-from-ref", st, "child.broker is the worker returned by refBrokerConsumer", "child.broker is set to a worker that was not obtained from refBrokerConsumer: the partition consumer uses a worker it holds no reference on", nil)
		}
	}
}

func c12Handshakes(c *Ctx) {
	p := c.P
	rule := "C12.handshakes"
	c.Doc(rule, "close/wait hand-shakes: client.Close closes closer then waits for closed, which the updater defers; Broker.Close closes responses then waits for done, which responseReceiver closes after its loop; offsetManager.mainLoop defers close(closed); partition consumer: dispatcher closes feeder after its trigger loop, responseFeeder closes messages and errors after its feeder loop; subscriptionManager closes wait and newSubscriptions on exit")
	c.Floor(rule, 9)
	order := func(fnName, what string, a, b Ev) {
		fn := c.NeedFn(rule, fnName)
		if fn == nil {
			return
		}
		reg := WholeFn(fn)
		if len(reg.Find(a)) == 0 || len(reg.Find(b)) == 0 {
			c.Fail(rule, fn, what, nil, "hand-shake step missing in "+fnName+" ("+what+")", nil)
			return
		}
		it, path := reg.MustPrecede(a, b)
		s, path2 := reg.MustFollow(a, b)
		c.Check(it.IsZero() && s.IsZero(), rule, fn, what, nil, what, fnName+": "+what+" does not hold on every path (wait without signal: hang; signal without wait: resources released while the goroutine runs)", append(path, path2...))
	}
	order("client.Close", "close(closer) then <-closed", CloseOf(FieldLoad("client.closer")), RecvFrom(FieldLoad("client.closed")))
	order("Broker.Close", "close(responses) then <-done", CloseOf(FieldLoad("Broker.responses")), RecvFrom(FieldLoad("Broker.done")))
	deferCloses := func(fnName, field string) {
		fn := c.NeedFn(rule, fnName)
		if fn == nil {
			return
		}
		ok := false
		for _, in := range fn.Blocks[0].Instrs {
			if DeferCloseOf(FieldLoad(field))(Item{In: in}) {
				ok = true
			}
		}
		c.Check(ok, rule, fn, "defer-close:"+field, nil, "defers close("+field+") at entry", fnName+" can exit without closing "+field+": whoever waits for it blocks forever", nil)
	}
	deferCloses("client.backgroundMetadataUpdater", "client.closed")
	deferCloses("offsetManager.mainLoop", "offsetManager.closed")
	deferCloses("consumerGroupSession.heartbeatLoop", "consumerGroupSession.hbDead")
	afterLoop := func(fnName, loopChan string, closes ...string) {
		fn := c.NeedFn(rule, fnName)
		if fn == nil {
			return
		}
		fi := Info(fn)
		loops, _ := rangeChanLoops(fi, FieldLoad(loopChan))
		if len(loops) != 1 {
			c.Unresolved(rule, "range over "+loopChan+" in "+fnName)
			return
		}
		// from the loop's exit (header false edge) every path closes each channel
		exit := loops[0].Head.Succs[1]
		reg := WholeFn(fn).From(Pt{exit, 0})
		for _, ch := range closes {
			esc, path := reg.Escape(CloseOf(FieldLoad(ch)))
			inLoop := len(fi.Iteration(loops[0]).Find(CloseOf(FieldLoad(ch)))) > 0
			c.Check(!esc && !inLoop, rule, fn, "close-after-loop:"+ch, nil, ch+" closed exactly after the "+loopChan+" loop ends", fnName+" does not close "+ch+" on every path after its loop (or closes it inside the loop): the consumer of that channel hangs or a later send panics", path)
		}
	}
	afterLoop("partitionConsumer.dispatcher", "partitionConsumer.trigger", "partitionConsumer.feeder")
	afterLoop("partitionConsumer.responseFeeder", "partitionConsumer.feeder", "partitionConsumer.messages", "partitionConsumer.errors")
	afterLoop("Broker.responseReceiver", "Broker.responses", "Broker.done")
	if fn := c.NeedFn(rule, "brokerConsumer.subscriptionManager"); fn != nil {
		reg := WholeFn(fn)
		for _, ch := range []string{"brokerConsumer.wait", "brokerConsumer.newSubscriptions"} {
			// the function returns only after closing ch
			it, path := reg.MustPrecede(CloseOf(FieldLoad(ch)), IsReturn())
			c.Check(it.IsZero(), rule, fn, "close-on-exit:"+ch, nil, ch+" closed before subscriptionManager returns", "subscriptionManager can return without closing "+ch+": subscriptionConsumer blocks forever", path)
		}
	}
	// NewClient error path: closes closed itself iff the updater was not started
	if fn := c.NeedFn(rule, "NewClient"); fn != nil {
		reg := WholeFn(fn)
		cl := CloseOf(FieldLoad("client.closed"))
		start := p.GoOf("client.backgroundMetadataUpdater")
		it, path := reg.MustPrecede(cl, p.CallTo("client.Close"))
		hasBoth := false
		for _, s := range reg.Find(cl) {
			if x, _ := reg.From(s.After()).Reach(start, nil); !x.IsZero() {
				hasBoth = true
			}
		}
		for _, s := range reg.Find(start) {
			if x, _ := reg.From(s.After()).Reach(cl, nil); !x.IsZero() {
				hasBoth = true
			}
		}
		c.Check(it.IsZero() && !hasBoth, rule, fn, "newclient-error-path", nil, "on the failure path closed is closed by NewClient itself before Close(), and never together with starting the updater", "NewClient's failure path calls Close() without closing client.closed first (Close blocks forever), or closes it although the updater (which also closes it) is started", path)
	}
}

// shutdown channels per component
var dyingTable = map[string][]string{
	"partitionConsumer.dispatcher":            {"partitionConsumer.dying"},
	"partitionConsumer.responseFeeder":        {"partitionConsumer.dying"},
	"consumerGroupSession.heartbeatLoop":      {"consumerGroupSession.hbDying"},
	"consumerGroup.loopCheckPartitionNumbers": {"consumerGroup.closed"},
	"consumerGroup.retryNewSession":           {"consumerGroup.closed"},
	"offsetManager.fetchInitialOffset":        {"offsetManager.closing"},
	"offsetManager.mainLoop":                  {"offsetManager.closing"},
	"client.backgroundMetadataUpdater":        {"client.closer"},
	"brokerProducer.run":                      {"brokerProducer.stopchan"},
}

func c12Dying(c *Ctx) { dyingRule(c, 9, func(string) bool { return true }) }

// c07Dying: the consumer-group part of the same rule (a Close that cannot end a session breaks C07 too).
func c07Dying(c *Ctx) {
	dyingRule(c, 3, func(fn string) bool { return strings.HasPrefix(fn, "consumerGroup") })
}

func dyingRule(c *Ctx, floor int, include func(string) bool) {
	rule := "C12.dying"
	c.Doc(rule, "every blocking select (no default) of the tabled long-running functions that waits on a timer, ticker or output channel also has a receive case on the component's shutdown channel")
	c.Floor(rule, floor)
	names := make([]string, 0, len(dyingTable))
	for n := range dyingTable {
		if include(n) {
			names = append(names, n)
		}
	}
	sort.Strings(names)
	for _, name := range names {
		fn := c.NeedFn(rule, name)
		if fn == nil {
			continue
		}
		n := 0
		// (immediately-invoked literals included: a loop step written as one is part of the function)
		Info(fn).Each(func(it Item) {
			sel, ok := it.In.(*ssa.Select)
			if !ok || !sel.Blocking {
				return
			}
			n++
			has := false
			for _, st := range sel.States {
				if st.Dir == types.RecvOnly && FieldLoad(dyingTable[name]...)(st.Chan) {
					has = true
				}
			}
			// the feeder's inner slow-reader select and run's main select are covered by the same test
			c.Check(has, rule, fn, "select-has-shutdown-case", sel, "blocking select has a case on "+strings.Join(dyingTable[name], "/"),
				"a blocking select in "+name+" has no case on the shutdown channel ("+strings.Join(dyingTable[name], "/")+"): Close()/AsyncClose hangs while it waits", nil)
		})
		if n == 0 {
			c.Fail(rule, fn, "select-has-shutdown-case", nil, "no blocking select found in "+name+" (anchor drifted)", nil)
		}
		// a bare receive from a timer/ticker channel (a select with a single case compiles to one) waits without
		// watching the shutdown channel
		for _, b := range fn.Blocks {
			for _, in := range b.Instrs {
				u, ok := in.(*ssa.UnOp)
				if !ok || u.Op != token.ARROW {
					continue
				}
				if ch, ok := u.X.Type().Underlying().(*types.Chan); ok && ch.Elem().String() == "time.Time" {
					c.Fail(rule, fn, "bare-timer-wait", u, "waits on a timer/ticker channel outside a select with a shutdown case: Close()/AsyncClose hangs for the whole backoff (or forever for a stopped timer)", nil)
				}
			}
		}
	}
}

func c12WhoSends(c *Ctx) {
	p := c.P
	rule := "C12.who-sends"
	c.Doc(rule, "channels closed by their only sender: the set of functions that send on them is the tabled one, so no send can follow the close")
	c.Floor(rule, 7)
	table := map[string][]string{
		"partitionConsumer.messages":      {"partitionConsumer.responseFeeder"},
		"asyncProducer.errors":            {"asyncProducer.dispatcher", "asyncProducer.returnError"},
		"asyncProducer.successes":         {"asyncProducer.returnSuccesses"},
		"Broker.responses":                {"Broker.send"},
		"brokerConsumer.newSubscriptions": {"brokerConsumer.subscriptionManager"},
		"brokerConsumer.wait":             {"brokerConsumer.subscriptionManager"},
		"partitionConsumer.feeder":        {"brokerConsumer.subscriptionConsumer"},
		"partitionOffsetManager.errors":   {"partitionOffsetManager.handleError"},
	}
	fields := make([]string, 0, len(table))
	for f := range table {
		fields = append(fields, f)
	}
	sort.Strings(fields)
	for _, f := range fields {
		var got []string
		for _, fn := range p.Fns {
			if fn.Pkg == p.Mocks || (fn.Parent() != nil && rootFn(fn).Pkg == p.Mocks) {
				continue
			}
			if hasItem(fn, SendOn(FieldLoad(f), nil)) {
				got = append(got, p.Name(fn))
			}
		}
		sort.Strings(got)
		want := append([]string{}, table[f]...)
		sort.Strings(want)
		c.Check(strings.Join(got, ",") == strings.Join(want, ","), rule, nil, "senders:"+f, nil, "senders of "+f+": "+strings.Join(got, ","),
			"senders of "+f+" are ["+strings.Join(got, ",")+"], tabled ["+strings.Join(want, ",")+"]: a new sender may send after the close (panic)", nil)
	}
}

// C12.send-vs-close-lock: a channel that has several senders running concurrently with its closer is safe only if the
// sends and the close exclude each other.  pom.errors: sent on by pom.handleError (commit errors, from whichever
// goroutine ran the commit), closed by pom.release (from releasePOMs, i.e. Close or a later successful flush).  What
// orders them is om.pomsLock: the senders run under the read lock, the closer under the write lock.
func c12SendVsCloseLock(c *Ctx) {
	p := c.P
	rule := "C12.send-vs-close-lock"
	c.Doc(rule, "partitionOffsetManager.errors: every call of partitionOffsetManager.handleError (the only sender) is made while an offsetManager.pomsLock is held (read or write), every call of partitionOffsetManager.release (the only closer) while it is held for writing; so the close cannot happen between a sender's decision to send and its send")
	c.Floor(rule, 3)
	need := map[string]int{"partitionOffsetManager.handleError": 1, "partitionOffsetManager.release": 2}
	// the closer really is the only closer
	for _, fn := range p.Fns {
		if rootFn(fn).Pkg != p.Sarama {
			continue
		}
		if hasItem(fn, CloseOf(FieldLoad("partitionOffsetManager.errors"))) && p.Name(rootFn(fn)) != "partitionOffsetManager.release" {
			c.Fail(rule, fn, "closer", nil, "partitionOffsetManager.errors is closed outside partitionOffsetManager.release: the lock discipline checked here does not cover that close", nil)
		}
	}
	n := 0
	for _, fn := range p.Fns {
		if rootFn(fn).Pkg != p.Sarama {
			continue
		}
		heldLocks(p, fn, func(i ssa.Instruction, held lockset) {
			cc, ok := callCommon(Item{In: i})
			if !ok {
				return
			}
			name := p.CalleeName(cc)
			mode, tabled := need[name]
			if !tabled {
				return
			}
			_, isCall := i.(*ssa.Call)
			got := 0
			if isCall {
				for k, m := range held {
					if k.lock == "pomsLock" && m > got {
						got = m
					}
				}
			}
			n++
			what := "read or write"
			if mode == 2 {
				what = "write"
			}
			c.Check(got >= mode, rule, fn, "call:"+name, i, name+" called with pomsLock held ("+what+")",
				name+" is called without holding offsetManager.pomsLock ("+what+" mode): a failed commit's error can be sent on pom.errors while releasePOMs (Close, or a concurrent successful commit) closes it — send on closed channel panic, and the channel is closed before its last event", nil)
		})
	}
	if n < 3 {
		c.Unresolved(rule, fmt.Sprintf("calls of partitionOffsetManager.handleError/release (found %d)", n))
	}
}
