package sarama

// Randomized search for inputs on which stickyBalanceStrategy.Plan does not return.
// Uses the helpers in demo_test.go (stickyPlanIn, stickyPlanWithTimeout, stickyPlanValid).
//
//   STICKY_SEARCH=1 go test -vet=off -count=1 -timeout 40m -run TestStickySearch -v .
//
// Environment:
//   STICKY_SEARCH=1          enable (otherwise the test is skipped)
//   STICKY_START=<seed>      first seed (default 1); seeds are START, START+1, ...
//   STICKY_CHAINS=<n>        stop after n chains (default: unlimited)
//   STICKY_MINUTES=<m>       wall-time budget (default 25)
//   STICKY_WORKERS=<n>       parallel workers (default GOMAXPROCS)
//   STICKY_MAXHANGS=<n>      stop after n hanging seeds (default 1)
//   STICKY_TIMEOUT_MS=<ms>   per-Plan timeout (default 2000)
//   STICKY_REPEAT=<n>        run Plan n times per chain step, because Plan iterates over Go maps
//                            and is therefore not deterministic for a fixed input (default 1)

import (
	"fmt"
	"math/rand"
	"os"
	"runtime"
	"sort"
	"strconv"
	"sync"
	"sync/atomic"
	"testing"
	"time"
)

type chainMember struct {
	id       string
	subs     []string
	hasData  bool
	assigned map[string][]int32
	gen      int32
	active   bool
	away     bool // left temporarily, will come back with its stale user data
}

type chainHang struct {
	seed  int64
	round int
	in    stickyPlanIn
}

func envInt(name string, def int) int {
	if v := os.Getenv(name); v != "" {
		if n, err := strconv.Atoi(v); err == nil {
			return n
		}
	}
	return def
}

func randomSubs(r *rand.Rand, topics []string) []string {
	for {
		var subs []string
		p := 0.2 + 0.6*r.Float64()
		for _, t := range topics {
			if r.Float64() < p {
				subs = append(subs, t)
			}
		}
		if len(subs) > 0 {
			return subs
		}
	}
}

// runStickyChain runs one join chain derived from seed. It returns the first hanging input (if any),
// the number of Plan calls made and a validity error (if any).
func runStickyChain(seed int64, timeout time.Duration, repeat int) (hang *chainHang, plans int, verr error) {
	r := rand.New(rand.NewSource(seed))

	nTopics := 3 + r.Intn(6) // 3..8
	topicNames := make([]string, nTopics)
	partitions := make(map[string]int, nTopics)
	for i := range topicNames {
		topicNames[i] = fmt.Sprintf("t%d", i)
		partitions[topicNames[i]] = 1 + r.Intn(6) // 1..6
	}

	poolSize := 2 + r.Intn(9) // 2..10 members in total
	rounds := 3 + r.Intn(6)   // 3..8 rebalances
	var pool []*chainMember
	generation := int32(0)

	for round := 0; round < rounds; round++ {
		generation++

		// members leave (for good or temporarily), members that were away may come back
		if round > 0 {
			for _, m := range pool {
				switch {
				case m.active && r.Float64() < 0.15:
					m.active = false
					m.away = r.Float64() < 0.6
				case m.away && r.Float64() < 0.5:
					m.active, m.away = true, false
				}
			}
			// a member may change its subscription
			for _, m := range pool {
				if m.active && r.Float64() < 0.05 {
					m.subs = randomSubs(r, topicNames)
				}
			}
			// partitions grow
			for _, t := range topicNames {
				if r.Float64() < 0.15 {
					partitions[t] += 1 + r.Intn(2)
				}
			}
		}
		// a wave of new members joins
		wave := 1 + r.Intn(3)
		if round > 0 && r.Float64() < 0.2 {
			wave = 0
		}
		for i := 0; i < wave && len(pool) < poolSize; i++ {
			pool = append(pool, &chainMember{
				id:     fmt.Sprintf("m%d", len(pool)),
				subs:   randomSubs(r, topicNames),
				active: true,
			})
		}

		in := stickyPlanIn{Topics: make(map[string][]int32, nTopics)}
		for _, t := range topicNames {
			ps := make([]int32, partitions[t])
			for i := range ps {
				ps[i] = int32(i)
			}
			in.Topics[t] = ps
		}
		for _, m := range pool {
			if !m.active {
				continue
			}
			in.Members = append(in.Members, stickyMemberIn{
				ID: m.id, Subs: append([]string(nil), m.subs...),
				HasData: m.hasData, Assigned: m.assigned, Gen: m.gen,
			})
		}
		if len(in.Members) == 0 {
			continue
		}

		var plan BalanceStrategyPlan
		for i := 0; i < repeat; i++ {
			p, err, ok := stickyPlanWithTimeout(in, timeout)
			plans++
			if !ok {
				return &chainHang{seed: seed, round: round, in: in}, plans, nil
			}
			if err != nil {
				return nil, plans, fmt.Errorf("seed %d round %d: Plan error %v", seed, round, err)
			}
			if err := stickyPlanValid(in, p); err != nil {
				return nil, plans, fmt.Errorf("seed %d round %d: invalid plan: %v\n%s", seed, round, err, in.goLiteral())
			}
			plan = p
		}

		// every active member remembers what it was given, as consumerGroup does via AssignmentData
		for _, m := range pool {
			if !m.active {
				continue
			}
			assigned := make(map[string][]int32)
			for t, ps := range plan[m.id] {
				cp := append([]int32(nil), ps...)
				sort.Slice(cp, func(i, j int) bool { return cp[i] < cp[j] })
				assigned[t] = cp
			}
			m.hasData, m.assigned, m.gen = true, assigned, generation
		}
	}
	return nil, plans, nil
}

func TestStickySearch(t *testing.T) {
	if os.Getenv("STICKY_SEARCH") == "" {
		t.Skip("set STICKY_SEARCH=1 to run the randomized search")
	}
	start := int64(envInt("STICKY_START", 1))
	maxChains := int64(envInt("STICKY_CHAINS", 0))
	budget := time.Duration(envInt("STICKY_MINUTES", 25)) * time.Minute
	workers := envInt("STICKY_WORKERS", runtime.GOMAXPROCS(0))
	maxHangs := envInt("STICKY_MAXHANGS", 1)
	timeout := time.Duration(envInt("STICKY_TIMEOUT_MS", 2000)) * time.Millisecond
	repeat := envInt("STICKY_REPEAT", 1)

	var (
		next      = start - 1
		chains    int64
		plans     int64
		stop      int32
		mu        sync.Mutex
		hangs     []*chainHang
		firstVerr error
		wg        sync.WaitGroup
	)
	deadline := time.Now().Add(budget)
	began := time.Now()
	for w := 0; w < workers; w++ {
		wg.Add(1)
		go func() {
			defer wg.Done()
			for atomic.LoadInt32(&stop) == 0 && time.Now().Before(deadline) {
				seed := atomic.AddInt64(&next, 1)
				if maxChains > 0 && seed >= start+maxChains {
					return
				}
				hang, n, verr := runStickyChain(seed, timeout, repeat)
				atomic.AddInt64(&plans, int64(n))
				c := atomic.AddInt64(&chains, 1)
				if c%100000 == 0 {
					fmt.Printf("... %d chains, %d plans, %s\n", c, atomic.LoadInt64(&plans), time.Since(began).Round(time.Second))
				}
				if hang == nil && verr == nil {
					continue
				}
				mu.Lock()
				if verr != nil && firstVerr == nil {
					firstVerr = verr
					atomic.StoreInt32(&stop, 1)
				}
				if hang != nil {
					hangs = append(hangs, hang)
					fmt.Printf("HANG seed=%d round=%d\n%s\n", hang.seed, hang.round, hang.in.goLiteral())
					if len(hangs) >= maxHangs {
						atomic.StoreInt32(&stop, 1)
					}
				}
				mu.Unlock()
			}
		}()
	}
	wg.Wait()
	t.Logf("seeds %d..%d: %d chains, %d Plan calls, %d hanging, %d plans with isSticky()==false, %s wall", start, atomic.LoadInt64(&next), chains, plans, len(hangs), atomic.LoadInt64(&stickyViolations), time.Since(began).Round(time.Second))
	if firstVerr != nil {
		t.Errorf("validity: %v", firstVerr)
	}
	sort.Slice(hangs, func(i, j int) bool { return hangs[i].seed < hangs[j].seed })
	for _, h := range hangs {
		t.Errorf("Plan did not return within %s: seed=%d round=%d\n%s", timeout, h.seed, h.round, h.in.goLiteral())
	}
}
