package sarama

// Helpers shared by the deterministic regression test (TestStickyPlanTerminates, below)
// and by the randomized search in search_test.go.

import (
	"fmt"
	"sort"
	"sync/atomic"
	"testing"
	"time"
)

// stickyMemberIn is one consumer-group member as seen by the leader in a JoinGroup response:
// its subscription plus (optionally) the sticky user data it reports, i.e. the assignment it
// was last given and the generation in which it was given.
type stickyMemberIn struct {
	ID       string
	Subs     []string
	HasData  bool
	Assigned map[string][]int32
	Gen      int32
}

// stickyPlanIn is one complete input of stickyBalanceStrategy.Plan.
type stickyPlanIn struct {
	Topics  map[string][]int32
	Members []stickyMemberIn
}

func (in stickyPlanIn) metadata() (map[string]ConsumerGroupMemberMetadata, error) {
	members := make(map[string]ConsumerGroupMemberMetadata, len(in.Members))
	for _, m := range in.Members {
		meta := ConsumerGroupMemberMetadata{Topics: append([]string(nil), m.Subs...)}
		if m.HasData {
			b, err := encode(&StickyAssignorUserDataV1{Topics: m.Assigned, Generation: m.Gen}, nil)
			if err != nil {
				return nil, err
			}
			meta.UserData = b
		}
		members[m.ID] = meta
	}
	return members, nil
}

// stickyViolations counts the Plan calls after which partitionMovements.isSticky() was false, i.e.
// two partitions of one topic were swapped between two members (informational only).
var stickyViolations int64

type stickyPlanResult struct {
	plan BalanceStrategyPlan
	err  error
}

// stickyPlanWithTimeout runs Plan on a fresh strategy in its own goroutine. ok is false when Plan
// did not return within d (the goroutine is then leaked, still spinning).
func stickyPlanWithTimeout(in stickyPlanIn, d time.Duration) (plan BalanceStrategyPlan, err error, ok bool) {
	members, err := in.metadata()
	if err != nil {
		return nil, err, true
	}
	topics := make(map[string][]int32, len(in.Topics))
	for t, ps := range in.Topics {
		topics[t] = append([]int32(nil), ps...)
	}
	done := make(chan stickyPlanResult, 1)
	go func() {
		s := &stickyBalanceStrategy{}
		p, e := s.Plan(members, topics)
		if !s.movements.isSticky() {
			atomic.AddInt64(&stickyViolations, 1)
		}
		done <- stickyPlanResult{p, e}
	}()
	timer := time.NewTimer(d)
	defer timer.Stop()
	select {
	case r := <-done:
		return r.plan, r.err, true
	case <-timer.C:
		return nil, nil, false
	}
}

// stickyPlanValid checks that every partition of every topic that has at least one subscriber is
// assigned to exactly one member, that this member subscribes to the topic, and that nothing else
// is assigned.
func stickyPlanValid(in stickyPlanIn, plan BalanceStrategyPlan) error {
	subs := make(map[string]map[string]bool)
	for _, m := range in.Members {
		subs[m.ID] = make(map[string]bool)
		for _, t := range m.Subs {
			subs[m.ID][t] = true
		}
	}
	owner := make(map[topicPartitionAssignment]string)
	for memberID, byTopic := range plan {
		if _, known := subs[memberID]; !known {
			return fmt.Errorf("plan contains unknown member %s", memberID)
		}
		for topic, partitions := range byTopic {
			if !subs[memberID][topic] {
				return fmt.Errorf("%s got topic %s it does not subscribe to", memberID, topic)
			}
			for _, p := range partitions {
				tp := topicPartitionAssignment{Topic: topic, Partition: p}
				if other, dup := owner[tp]; dup {
					return fmt.Errorf("%s-%d assigned to both %s and %s", topic, p, other, memberID)
				}
				owner[tp] = memberID
			}
		}
	}
	for topic, partitions := range in.Topics {
		subscribed := false
		for _, m := range in.Members {
			if subs[m.ID][topic] {
				subscribed = true
			}
		}
		for _, p := range partitions {
			_, assigned := owner[topicPartitionAssignment{Topic: topic, Partition: p}]
			if subscribed && !assigned {
				return fmt.Errorf("%s-%d has subscribers but is unassigned", topic, p)
			}
			if !subscribed && assigned {
				return fmt.Errorf("%s-%d has no subscriber but is assigned", topic, p)
			}
			delete(owner, topicPartitionAssignment{Topic: topic, Partition: p})
		}
	}
	for tp, m := range owner {
		return fmt.Errorf("non-existing partition %s-%d assigned to %s", tp.Topic, tp.Partition, m)
	}
	return nil
}

// goLiteral renders the input as Go source, ready to be pasted into a test.
func (in stickyPlanIn) goLiteral() string {
	s := "stickyPlanIn{\n\tTopics: map[string][]int32{"
	var topics []string
	for t := range in.Topics {
		topics = append(topics, t)
	}
	sort.Strings(topics)
	for _, t := range topics {
		s += fmt.Sprintf("%q: %s, ", t, int32sLiteral(in.Topics[t]))
	}
	s += "},\n\tMembers: []stickyMemberIn{\n"
	for _, m := range in.Members {
		s += fmt.Sprintf("\t\t{ID: %q, Subs: %#v", m.ID, m.Subs)
		if m.HasData {
			s += fmt.Sprintf(", HasData: true, Gen: %d, Assigned: map[string][]int32{", m.Gen)
			var ts []string
			for t := range m.Assigned {
				ts = append(ts, t)
			}
			sort.Strings(ts)
			for _, t := range ts {
				s += fmt.Sprintf("%q: %s, ", t, int32sLiteral(m.Assigned[t]))
			}
			s += "}"
		}
		s += "},\n"
	}
	s += "\t},\n}"
	return s
}

func int32sLiteral(v []int32) string {
	s := "{"
	for i, x := range v {
		if i > 0 {
			s += ", "
		}
		s += fmt.Sprint(x)
	}
	return s + "}"
}

// TestStickyPlanTerminates is the minimised input found by TestStickySearch (search_test.go).
//
// It is the second rebalance of a very ordinary join chain:
//
//	generation 1: m0 and m1 consume t0 (5 partitions, split 3/2), m3 and m4 consume t1 (10 partitions, 5/5)
//	generation 2: m2 joins and subscribes to both t0 and t1
//
// On the unmodified tree Plan never returns for this input: performReassignments moves t0-2
// m1 -> m0 and back m0 -> m1 in every pass of its outer loop, forever.
func TestStickyPlanTerminates(t *testing.T) {
	in := stickyPlanIn{
		Topics: map[string][]int32{"t0": {0, 1, 2, 3, 4}, "t1": {0, 1, 2, 3, 4, 5, 6, 7, 8, 9}},
		Members: []stickyMemberIn{
			{ID: "m0", Subs: []string{"t0"}, HasData: true, Gen: 1, Assigned: map[string][]int32{"t0": {2, 3, 4}}},
			{ID: "m1", Subs: []string{"t0"}, HasData: true, Gen: 1, Assigned: map[string][]int32{"t0": {0, 1}}},
			{ID: "m2", Subs: []string{"t0", "t1"}},
			{ID: "m3", Subs: []string{"t1"}, HasData: true, Gen: 1, Assigned: map[string][]int32{"t1": {0, 1, 2, 3, 4}}},
			{ID: "m4", Subs: []string{"t1"}, HasData: true, Gen: 1, Assigned: map[string][]int32{"t1": {5, 6, 7, 8, 9}}},
		},
	}
	// Plan ranges over Go maps, so run it a few times: every run has to come back.
	for i := 0; i < 10; i++ {
		plan, err, ok := stickyPlanWithTimeout(in, 2*time.Second)
		if !ok {
			t.Fatalf("run %d: Plan did not return within 2s", i)
		}
		if err != nil {
			t.Fatalf("run %d: Plan failed: %v", i, err)
		}
		if err := stickyPlanValid(in, plan); err != nil {
			t.Fatalf("run %d: %v\nplan: %v", i, err, plan)
		}
		min, max := 1<<30, 0
		for _, m := range in.Members {
			n := 0
			for _, ps := range plan[m.ID] {
				n += len(ps)
			}
			if n < min {
				min = n
			}
			if n > max {
				max = n
			}
		}
		// m0+m1 share the 5 partitions of t0 at most (so one of them has <= 2) and m2+m3+m4 hold at
		// least the 10 partitions of t1 (so one of them has >= 4): 2..4 is the best possible spread
		if max-min > 2 {
			t.Errorf("run %d: plan is not balanced (min %d, max %d): %v", i, min, max, plan)
		}
	}
}
