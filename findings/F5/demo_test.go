package sarama

import (
	"strings"
	"sync"
	"testing"
	"time"
)

// verifF5CountingInterceptor counts OnConsume invocations per message offset
// and also leaves a visible mark in the message value on each invocation.
type verifF5CountingInterceptor struct {
	mu    sync.Mutex
	calls map[int64]int
}

func (c *verifF5CountingInterceptor) OnConsume(msg *ConsumerMessage) {
	c.mu.Lock()
	defer c.mu.Unlock()
	if c.calls == nil {
		c.calls = make(map[int64]int)
	}
	c.calls[msg.Offset]++
	msg.Value = append(append([]byte{}, msg.Value...), '!')
}

// TestVerifF5ConsumerInterceptorAppliedOnceOnSlowReader checks that consumer
// interceptors are applied exactly once per message, even when the reader of
// Messages() is slower than Consumer.MaxProcessingTime and the response feeder
// takes its "expiry" (slow reader) path.
func TestVerifF5ConsumerInterceptorAppliedOnceOnSlowReader(t *testing.T) {
	const nMsgs = 4

	broker0 := NewMockBroker(t, 0)
	defer broker0.Close()

	fetchResponse1 := &FetchResponse{}
	for i := 1; i <= nMsgs; i++ {
		fetchResponse1.AddMessage("my_topic", 0, nil, StringEncoder("v"), int64(i))
	}
	broker0.SetHandlerByMap(map[string]MockResponse{
		"MetadataRequest": NewMockMetadataResponse(t).
			SetBroker(broker0.Addr(), broker0.BrokerID()).
			SetLeader("my_topic", 0, broker0.BrokerID()),
		"OffsetRequest": NewMockOffsetResponse(t).
			SetOffset("my_topic", 0, OffsetNewest, 1234).
			SetOffset("my_topic", 0, OffsetOldest, 1),
		"FetchRequest": NewMockSequence(fetchResponse1),
	})

	counter := &verifF5CountingInterceptor{}

	config := NewTestConfig()
	config.ChannelBufferSize = 0
	config.Consumer.MaxProcessingTime = 10 * time.Millisecond
	config.Consumer.Interceptors = []ConsumerInterceptor{counter}

	master, err := NewConsumer([]string{broker0.Addr()}, config)
	if err != nil {
		t.Fatal(err)
	}
	consumer, err := master.ConsumePartition("my_topic", 0, 1)
	if err != nil {
		t.Fatal(err)
	}

	// Slow reader: wait well over 2*MaxProcessingTime before each read so that
	// the expiry ticker fires twice while the feeder is blocked on a message.
	got := make([]*ConsumerMessage, 0, nMsgs)
	for i := 1; i <= nMsgs; i++ {
		time.Sleep(60 * time.Millisecond)
		select {
		case msg := <-consumer.Messages():
			if msg.Offset != int64(i) {
				t.Fatalf("unexpected offset %d, want %d", msg.Offset, i)
			}
			got = append(got, msg)
		case cerr := <-consumer.Errors():
			t.Fatalf("unexpected consumer error: %v", cerr)
		case <-time.After(5 * time.Second):
			t.Fatalf("timeout waiting for message with offset %d", i)
		}
	}

	closed := make(chan struct{})
	go func() {
		defer close(closed)
		if err := consumer.Close(); err != nil {
			t.Error(err)
		}
		if err := master.Close(); err != nil {
			t.Error(err)
		}
	}()
	select {
	case <-closed:
	case <-time.After(5 * time.Second):
		t.Fatal("timeout closing consumer")
	}

	counter.mu.Lock()
	defer counter.mu.Unlock()
	for _, msg := range got {
		if n := counter.calls[msg.Offset]; n != 1 {
			t.Errorf("offset %d: consumer interceptor invoked %d times, want exactly 1", msg.Offset, n)
		}
		if marks := strings.Count(string(msg.Value), "!"); marks != 1 {
			t.Errorf("offset %d: value %q carries %d interceptor marks, want exactly 1", msg.Offset, msg.Value, marks)
		}
	}
}
