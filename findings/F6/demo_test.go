package mocks

import (
	"errors"
	"testing"
	"time"

	"github.com/Shopify/sarama"
)

// verifF6Outcomes sends a single message through the mock async producer,
// closes it, and returns how many events showed up on Successes() and Errors().
func verifF6Outcomes(t *testing.T, mp *AsyncProducer) (successes int, errs []*sarama.ProducerError) {
	t.Helper()

	select {
	case mp.Input() <- &sarama.ProducerMessage{Topic: "test", Value: sarama.StringEncoder("test")}:
	case <-time.After(5 * time.Second):
		t.Fatal("timeout sending the message to the mock producer")
	}

	closed := make(chan struct{})
	go func() {
		defer close(closed)
		_ = mp.Close()
	}()
	select {
	case <-closed:
	case <-time.After(5 * time.Second):
		t.Fatal("timeout closing the mock producer")
	}

	// Both channels are closed once Close() returned: drain them entirely.
	deadline := time.After(5 * time.Second)
	successCh, errorCh := mp.Successes(), mp.Errors()
	for successCh != nil || errorCh != nil {
		select {
		case msg, ok := <-successCh:
			if !ok {
				successCh = nil
				continue
			}
			_ = msg
			successes++
		case perr, ok := <-errorCh:
			if !ok {
				errorCh = nil
				continue
			}
			errs = append(errs, perr)
		case <-deadline:
			t.Fatal("timeout draining the mock producer output channels")
		}
	}
	return successes, errs
}

// TestVerifF6CheckerErrorYieldsSingleOutcome checks that when the checker
// function of an expectation rejects the input message, the mock async
// producer reports exactly one outcome for that message (the checker error),
// not the checker error AND the configured result of the expectation.
func TestVerifF6CheckerErrorYieldsSingleOutcome(t *testing.T) {
	errChecker := errors.New("verif: checker rejected the value")
	rejectAll := func([]byte) error { return errChecker }

	t.Run("AndSucceed", func(t *testing.T) {
		config := NewTestConfig()
		config.Producer.Return.Successes = true
		config.Producer.Return.Errors = true

		trm := newTestReporterMock()
		mp := NewAsyncProducer(trm, config)
		mp.ExpectInputWithCheckerFunctionAndSucceed(rejectAll)

		successes, errs := verifF6Outcomes(t, mp)

		if len(trm.errors) != 1 {
			t.Errorf("expected the checker failure to be reported once to the ErrorReporter, got %d: %v", len(trm.errors), trm.errors)
		}
		if len(errs) < 1 || !errors.Is(errs[0].Err, errChecker) {
			t.Errorf("expected the checker error on Errors(), got %v", errs)
		}
		if total := successes + len(errs); total != 1 {
			t.Errorf("1 input message produced %d outcomes (%d on Errors() + %d on Successes()), want exactly 1",
				total, len(errs), successes)
		}
	})

	t.Run("AndFail", func(t *testing.T) {
		config := NewTestConfig()
		config.Producer.Return.Successes = true
		config.Producer.Return.Errors = true

		trm := newTestReporterMock()
		mp := NewAsyncProducer(trm, config)
		mp.ExpectInputWithCheckerFunctionAndFail(rejectAll, sarama.ErrOutOfBrokers)

		successes, errs := verifF6Outcomes(t, mp)

		if len(trm.errors) != 1 {
			t.Errorf("expected the checker failure to be reported once to the ErrorReporter, got %d: %v", len(trm.errors), trm.errors)
		}
		if len(errs) < 1 || !errors.Is(errs[0].Err, errChecker) {
			t.Errorf("expected the checker error on Errors(), got %v", errs)
		}
		if total := successes + len(errs); total != 1 {
			t.Errorf("1 input message produced %d outcomes (%d on Errors() + %d on Successes()), want exactly 1",
				total, len(errs), successes)
		}
	})
}
