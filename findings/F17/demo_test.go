package mocks

import (
	"testing"

	"github.com/Shopify/sarama"
)

// F17: the mock SyncProducer chooses the partition with the configured partitioner, stores it in
// the message, but SendMessage returns the literal 0 on success.
func TestVerifF17SyncProducerReturnsChosenPartition(t *testing.T) {
	config := sarama.NewConfig()
	config.Producer.Partitioner = sarama.NewManualPartitioner
	sp := NewSyncProducer(t, config)
	defer func() { _ = sp.Close() }()
	sp.TopicConfig.SetPartitions(map[string]int32{"t": 8})
	sp.ExpectSendMessageAndSucceed()
	msg := &sarama.ProducerMessage{Topic: "t", Partition: 5, Value: sarama.StringEncoder("v")}
	partition, _, err := sp.SendMessage(msg)
	if err != nil {
		t.Fatal(err)
	}
	if msg.Partition != 5 {
		t.Fatalf("msg.Partition = %d, want 5", msg.Partition)
	}
	if partition != msg.Partition {
		t.Errorf("SendMessage returned partition %d but the partitioner chose (and the message carries) %d", partition, msg.Partition)
	}
}
