package sarama

import (
	"errors"
	"fmt"
	"math"
	"strings"
	"testing"
)

// verifF14Encode runs the package level encode() and converts a panic into an
// error so that the test binary survives.
func verifF14Encode(e encoder) (buf []byte, panicked interface{}, err error) {
	defer func() {
		if r := recover(); r != nil {
			panicked = r
		}
	}()
	buf, err = encode(e, nil)
	return buf, nil, err
}

// TestVerifF14AlterConfigsResourceResponseSwallowsEncodeError shows that
// AlterConfigsResourceResponse.encode returns nil instead of the error of
// putString, so that an over-long string is not reported as a
// PacketEncodingError but yields a panic (ErrorMsg) or a corrupt packet (Name).
func TestVerifF14AlterConfigsResourceResponseSwallowsEncodeError(t *testing.T) {
	tooLong := strings.Repeat("x", math.MaxInt16+1)

	for _, tc := range []struct {
		name string
		res  *AlterConfigsResourceResponse
	}{
		{"ErrorMsg", &AlterConfigsResourceResponse{ErrorMsg: tooLong, Type: TopicResource, Name: "t"}},
		{"Name", &AlterConfigsResourceResponse{ErrorMsg: "e", Type: TopicResource, Name: tooLong}},
	} {
		tc := tc
		t.Run(tc.name, func(t *testing.T) {
			// white-box: the resource encoder itself must report the error
			var prep prepEncoder
			if err := tc.res.encode(&prep); err == nil {
				t.Errorf("AlterConfigsResourceResponse.encode(prepEncoder) returned nil for a %d byte %s",
					len(tooLong), tc.name)
			}

			resp := &AlterConfigsResponse{Resources: []*AlterConfigsResourceResponse{tc.res}}
			buf, panicked, err := verifF14Encode(resp)
			if panicked != nil {
				t.Fatalf("encode panicked instead of returning a PacketEncodingError: %v", panicked)
			}
			var pee PacketEncodingError
			if !errors.As(err, &pee) {
				t.Fatalf("encode returned err=%v and %d bytes (%s), want a PacketEncodingError",
					err, len(buf), verifF14Describe(buf))
			}
		})
	}
}

func verifF14Describe(buf []byte) string {
	if buf == nil {
		return "nil"
	}
	var resp AlterConfigsResponse
	if err := versionedDecode(buf, &resp, 0); err != nil {
		return fmt.Sprintf("which does not even decode: %v", err)
	}
	return "which decodes to a different response"
}
