package sarama

import (
	"testing"
	"time"
)

// TestVerifF9DescribeLogDirsUnknownBrokerHangs shows that DescribeLogDirs
// never returns when one of the broker ids is unknown: wg.Add(1) is executed
// before the findBroker error check whose `continue` skips the goroutine that
// would call wg.Done().
func TestVerifF9DescribeLogDirsUnknownBrokerHangs(t *testing.T) {
	const knownBrokerID = int32(1)
	const unknownBrokerID = int32(4242)

	for _, tc := range []struct {
		name      string
		ids       []int32
		wantKnown bool
	}{
		{"OnlyUnknown", []int32{unknownBrokerID}, false},
		// the known broker must still be answered
		{"KnownAndUnknown", []int32{knownBrokerID, unknownBrokerID}, true},
	} {
		tc := tc
		t.Run(tc.name, func(t *testing.T) {
			seedBroker := NewMockBroker(t, knownBrokerID)
			defer seedBroker.Close()

			seedBroker.SetHandlerByMap(map[string]MockResponse{
				"MetadataRequest": NewMockMetadataResponse(t).
					SetController(seedBroker.BrokerID()).
					SetBroker(seedBroker.Addr(), seedBroker.BrokerID()),
				"DescribeLogDirsRequest": NewMockDescribeLogDirsResponse(t).
					SetLogDirs("/tmp/logs", map[string]int{"topic1": 2, "topic2": 2}),
			})

			config := NewTestConfig()
			config.Version = V1_0_0_0

			admin, err := NewClusterAdmin([]string{seedBroker.Addr()}, config)
			if err != nil {
				t.Fatal(err)
			}

			type result struct {
				dirs map[int32][]DescribeLogDirsResponseDirMetadata
				err  error
			}
			done := make(chan result, 1)
			go func() {
				dirs, err := admin.DescribeLogDirs(tc.ids)
				done <- result{dirs, err}
			}()

			select {
			case res := <-done:
				if res.err != nil {
					t.Fatalf("unexpected error: %v", res.err)
				}
				if _, ok := res.dirs[unknownBrokerID]; ok {
					t.Fatalf("unexpected log dirs for unknown broker %d", unknownBrokerID)
				}
				_, gotKnown := res.dirs[knownBrokerID]
				if gotKnown != tc.wantKnown {
					t.Fatalf("log dirs for known broker %d present = %v, want %v (%v)",
						knownBrokerID, gotKnown, tc.wantKnown, res.dirs)
				}
				if err := admin.Close(); err != nil {
					t.Fatal(err)
				}
			case <-time.After(2 * time.Second):
				// The DescribeLogDirs goroutine is leaked, blocked in wg.Wait();
				// do not Close the admin here, just report.
				t.Fatalf("DescribeLogDirs(%v) did not return within 2s: "+
					"wg.Add(1) without matching wg.Done() for the unknown broker id", tc.ids)
			}
		})
	}
}
