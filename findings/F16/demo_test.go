package sarama

import (
	"encoding/binary"
	"io"
	"net"
	"testing"
	"time"
)

// verifF16Server starts a raw TCP "broker" that accepts one connection,
// optionally writes `greeting` once the client has sent its first GSSAPI
// token, and then stays silent (it keeps draining what the client sends).
// The returned stop func closes the listener and the connection, which also
// releases a client goroutine that is stuck in a deadline-less read.
func verifF16Server(t *testing.T, greeting []byte) (addr string, stop func()) {
	ln, err := net.Listen("tcp", "127.0.0.1:0")
	if err != nil {
		t.Fatal(err)
	}
	connCh := make(chan net.Conn, 1)
	done := make(chan struct{})
	go func() {
		defer close(done)
		conn, err := ln.Accept()
		if err != nil {
			return
		}
		connCh <- conn
		if greeting != nil {
			// wait for the 4-byte length prefix of the client's first token
			var hdr [4]byte
			if _, err := io.ReadFull(conn, hdr[:]); err != nil {
				return
			}
			if _, err := conn.Write(greeting); err != nil {
				return
			}
		}
		_, _ = io.Copy(io.Discard, conn) // never answer (any more)
	}()
	return ln.Addr().String(), func() {
		_ = ln.Close()
		select {
		case c := <-connCh:
			_ = c.Close()
		default:
		}
		<-done
	}
}

func verifF16Config(readTimeout time.Duration) *Config {
	conf := NewTestConfig()
	conf.Version = V1_0_0_0
	conf.Net.DialTimeout = 1 * time.Second
	conf.Net.ReadTimeout = readTimeout
	conf.Net.WriteTimeout = readTimeout
	conf.Net.SASL.Enable = true
	conf.Net.SASL.Mechanism = SASLTypeGSSAPI
	conf.Net.SASL.GSSAPI.ServiceName = "kafka"
	conf.Net.SASL.GSSAPI.KerberosConfigPath = "krb5.conf"
	conf.Net.SASL.GSSAPI.Realm = "EXAMPLE.COM"
	conf.Net.SASL.GSSAPI.Username = "kafka"
	conf.Net.SASL.GSSAPI.Password = "kafka"
	conf.Net.SASL.GSSAPI.KeyTabPath = "kafka.keytab"
	conf.Net.SASL.GSSAPI.AuthType = KRB5_USER_AUTH
	return conf
}

type verifF16Result struct {
	ok      bool
	err     error
	elapsed time.Duration
}

// verifF16OpenAndWait opens a GSSAPI broker against addr and reports what
// Connected() returned, or nil if it had not returned after `limit`.
func verifF16OpenAndWait(t *testing.T, addr string, conf *Config, limit time.Duration) (*Broker, *verifF16Result) {
	broker := NewBroker(addr)
	broker.kerberosAuthenticator.NewKerberosClientFunc = func(config *GSSAPIConfig) (KerberosClient, error) {
		return &MockKerberosClient{}, nil
	}
	start := time.Now()
	if err := broker.Open(conf); err != nil {
		t.Fatal(err)
	}
	resCh := make(chan verifF16Result, 1)
	go func() {
		ok, err := broker.Connected()
		resCh <- verifF16Result{ok, err, time.Since(start)}
	}()
	select {
	case r := <-resCh:
		return broker, &r
	case <-time.After(limit):
		return broker, nil
	}
}

// TestVerifF16GSSAPISilentServerHangsOpen: a server that accepts the TCP
// connection and never answers the GSSAPI token must make Open fail after
// Net.ReadTimeout. On the unmodified tree readPackage reads from broker.conn
// without a deadline, so the Open goroutine blocks forever holding b.lock and
// Connected() (and every other Broker method) never returns.
func TestVerifF16GSSAPISilentServerHangsOpen(t *testing.T) {
	addr, stop := verifF16Server(t, nil)
	defer stop()

	conf := verifF16Config(200 * time.Millisecond)
	_, res := verifF16OpenAndWait(t, addr, conf, 3*time.Second)
	if res == nil {
		t.Fatalf("broker.Connected() still blocked 3s after Open() although Net.ReadTimeout=%v: "+
			"the GSSAPI handshake reads without a deadline while holding b.lock", conf.Net.ReadTimeout)
	}
	t.Logf("Connected() returned (%v, %v) after %v", res.ok, res.err, res.elapsed)
	if res.ok || res.err == nil {
		t.Errorf("expected (false, timeout error) against a silent server, got (%v, %v)", res.ok, res.err)
	}
}

// TestVerifF16GSSAPIOversizedPayloadLength: the server answers the first token
// with only a 4-byte length prefix announcing MaxResponseSize+1 bytes.
// readPackage must reject it straight away (well before ReadTimeout=5s)
// instead of allocating a buffer of an attacker-chosen size (up to 4 GiB)
// and waiting for the bytes.
func TestVerifF16GSSAPIOversizedPayloadLength(t *testing.T) {
	greeting := make([]byte, 4)
	binary.BigEndian.PutUint32(greeting, uint32(MaxResponseSize)+1)
	addr, stop := verifF16Server(t, greeting)
	defer stop()

	conf := verifF16Config(5 * time.Second)
	_, res := verifF16OpenAndWait(t, addr, conf, 2*time.Second)
	if res == nil {
		t.Fatalf("broker.Connected() still blocked after 2s: a payload length of MaxResponseSize+1 (%d) "+
			"was accepted (buffer allocated, waiting for the data) instead of being rejected", uint32(MaxResponseSize)+1)
	}
	t.Logf("Connected() returned (%v, %v) after %v", res.ok, res.err, res.elapsed)
	if res.ok || res.err == nil {
		t.Errorf("expected (false, error) for an oversized GSSAPI payload length, got (%v, %v)", res.ok, res.err)
	}
}
