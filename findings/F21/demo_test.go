package sarama

import "testing"

// A FetchRequest without partitions (legal from v7 on: an incremental fetch session that only forgets
// partitions) must round-trip like any other request.
func TestF21FetchRequestWithoutBlocksRoundTrips(t *testing.T) {
	for _, v := range []int16{0, 3, 4, 7, 11} {
		req := &FetchRequest{Version: v, MaxWaitTime: 100, MinBytes: 1, MaxBytes: 1 << 20, SessionID: 7, SessionEpoch: 3, RackID: "r1"}
		raw, err := encode(req, nil)
		if err != nil {
			t.Fatalf("v%d encode: %v", v, err)
		}
		back := &FetchRequest{}
		if err := versionedDecode(raw, back, v); err != nil {
			t.Errorf("v%d: decoding the %d bytes produced by encode failed: %v", v, len(raw), err)
			continue
		}
		if v >= 11 && back.RackID != "r1" {
			t.Errorf("v%d: RackID lost: %q", v, back.RackID)
		}
	}
}
