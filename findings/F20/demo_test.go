package sarama

import "testing"

type f20AlterResponse struct{ code KError }

func (m *f20AlterResponse) For(reqBody versionedDecoder) encoderWithHeader {
	msg := "broker failed"
	return &AlterPartitionReassignmentsResponse{ErrorCode: m.code, ErrorMessage: &msg}
}

// The controller answers AlterPartitionReassignments with the top-level error UNKNOWN_SERVER_ERROR (-1) and no
// per-partition entries.  The admin must report the failure.
func TestF20AlterReassignmentsTopLevelUnknownError(t *testing.T) {
	for _, code := range []KError{ErrUnknown, ErrInvalidReplicaAssignment} {
		seedBroker := NewMockBroker(t, 1)
		secondBroker := NewMockBroker(t, 2)
		seedBroker.SetHandlerByMap(map[string]MockResponse{
			"MetadataRequest": NewMockMetadataResponse(t).
				SetController(secondBroker.BrokerID()).
				SetBroker(seedBroker.Addr(), seedBroker.BrokerID()).
				SetBroker(secondBroker.Addr(), secondBroker.BrokerID()),
		})
		secondBroker.SetHandlerByMap(map[string]MockResponse{
			"AlterPartitionReassignmentsRequest": &f20AlterResponse{code},
		})
		config := NewTestConfig()
		config.Version = V2_4_0_0
		admin, err := NewClusterAdmin([]string{seedBroker.Addr()}, config)
		if err != nil {
			t.Fatal(err)
		}
		err = admin.AlterPartitionReassignments("my_topic", [][]int32{{1, 2}})
		if err == nil {
			t.Errorf("broker answered with top-level error %d (%v) but AlterPartitionReassignments reported success", int16(code), code)
		}
		_ = admin.Close()
		seedBroker.Close()
		secondBroker.Close()
	}
}
