package sarama

import (
	"errors"
	"testing"
)

// TestVerifF3RetryOnErrorNeverCallsFnWhenMaxIsZero is the white-box variant:
// with Admin.Retry.Max = 0 the function must still be attempted once.
func TestVerifF3RetryOnErrorNeverCallsFnWhenMaxIsZero(t *testing.T) {
	conf := NewTestConfig()
	conf.Admin.Retry.Max = 0
	conf.Admin.Retry.Backoff = 0
	if err := conf.Validate(); err != nil {
		t.Fatalf("Admin.Retry.Max = 0 is expected to be a valid config: %v", err)
	}
	ca := &clusterAdmin{conf: conf}

	sentinel := errors.New("sentinel")
	calls := 0
	err := ca.retryOnError(func(error) bool { return true }, func() error {
		calls++
		return sentinel
	})
	if calls != 1 {
		t.Errorf("fn called %d times with Admin.Retry.Max = 0, want exactly 1", calls)
	}
	if !errors.Is(err, sentinel) {
		t.Errorf("retryOnError returned %v, want the error of fn (%v)", err, sentinel)
	}
}

// TestVerifF3RetryOnErrorAttemptCount pins the attempt count for Max >= 1
// (Max = N means N attempts in total) so that the fix keeps today's semantics.
func TestVerifF3RetryOnErrorAttemptCount(t *testing.T) {
	for _, tc := range []struct{ max, want int }{{0, 1}, {1, 1}, {2, 2}, {5, 5}} {
		conf := NewTestConfig()
		conf.Admin.Retry.Max = tc.max
		conf.Admin.Retry.Backoff = 0
		ca := &clusterAdmin{conf: conf}
		sentinel := errors.New("sentinel")
		calls := 0
		err := ca.retryOnError(func(error) bool { return true }, func() error {
			calls++
			return sentinel
		})
		if calls != tc.want {
			t.Errorf("Max=%d: fn called %d times, want %d", tc.max, calls, tc.want)
		}
		if !errors.Is(err, sentinel) {
			t.Errorf("Max=%d: got error %v, want %v", tc.max, err, sentinel)
		}
	}
}

// TestVerifF3CreateTopicReportsSuccessWithoutSending is the black-box variant:
// CreateTopic returns nil although no CreateTopicsRequest reached the broker.
func TestVerifF3CreateTopicReportsSuccessWithoutSending(t *testing.T) {
	seedBroker := NewMockBroker(t, 1)
	defer seedBroker.Close()

	seedBroker.SetHandlerByMap(map[string]MockResponse{
		"MetadataRequest": NewMockMetadataResponse(t).
			SetController(seedBroker.BrokerID()).
			SetBroker(seedBroker.Addr(), seedBroker.BrokerID()),
		"CreateTopicsRequest": NewMockCreateTopicsResponse(t),
	})

	config := NewTestConfig()
	config.Version = V0_10_2_0
	config.Admin.Retry.Max = 0
	admin, err := NewClusterAdmin([]string{seedBroker.Addr()}, config)
	if err != nil {
		t.Fatal(err)
	}
	defer func() { _ = admin.Close() }()

	err = admin.CreateTopic("my_topic", &TopicDetail{NumPartitions: 1, ReplicationFactor: 1}, false)
	if err != nil {
		t.Fatalf("CreateTopic failed: %v", err)
	}

	createRequests := 0
	for _, rr := range seedBroker.History() {
		if _, ok := rr.Request.(*CreateTopicsRequest); ok {
			createRequests++
		}
	}
	if createRequests != 1 {
		t.Fatalf("CreateTopic returned nil (success) but the broker received %d CreateTopicsRequest(s), want 1",
			createRequests)
	}
}
