package sarama

// Demonstration tests for finding F8 / clause C10: decoding untrusted bytes
// must never panic nor allocate memory out of proportion with the input.
//
// Every sub-test recovers panics itself and bounds its own memory use, so the
// test binary always survives. On the unfixed tree most sub-tests FAIL (that is
// the demonstration); with /tmp/c10_fix.diff applied they must all PASS.

import (
	"encoding/binary"
	"errors"
	"fmt"
	"net"
	"os"
	"os/exec"
	"runtime"
	"runtime/debug"
	"strings"
	"testing"
	"time"

	"github.com/rcrowley/go-metrics"
)

const (
	f8MB             = 1 << 20
	f8AllocThreshold = 32 * f8MB
)

// f8Guard runs fn, converts a panic into a test error, and reports an error if
// fn allocated more than f8AllocThreshold bytes (inputs here are all < 64 bytes).
func f8Guard(t *testing.T, inputLen int, fn func() error) (err error, panicked bool) {
	t.Helper()
	runtime.GC()
	var before, after runtime.MemStats
	runtime.ReadMemStats(&before)
	func() {
		defer func() {
			if r := recover(); r != nil {
				panicked = true
				t.Errorf("PANIC while decoding %d untrusted bytes: %v", inputLen, r)
			}
		}()
		err = fn()
	}()
	runtime.ReadMemStats(&after)
	delta := after.TotalAlloc - before.TotalAlloc
	if delta > f8AllocThreshold {
		t.Errorf("decoding %d untrusted bytes allocated %d bytes (%.1f MB) (err=%v)",
			inputLen, delta, float64(delta)/f8MB, err)
	}
	debug.FreeOSMemory()
	return err, panicked
}

func f8WantErr(t *testing.T, err error, panicked bool) {
	t.Helper()
	if panicked {
		return
	}
	if err == nil {
		t.Errorf("expected a decoding error, got nil")
	} else {
		t.Logf("returned error (good): %v", err)
	}
}

func f8Uvarint(v uint64) []byte {
	var tmp [binary.MaxVarintLen64]byte
	return append([]byte(nil), tmp[:binary.PutUvarint(tmp[:], v)]...)
}

func f8Varint(v int64) []byte {
	var tmp [binary.MaxVarintLen64]byte
	return append([]byte(nil), tmp[:binary.PutVarint(tmp[:], v)]...)
}

func f8Cat(parts ...[]byte) []byte {
	var out []byte
	for _, p := range parts {
		out = append(out, p...)
	}
	return out
}

var f8MinusOne = []byte{0xFF, 0xFF, 0xFF, 0xFF}

// ---------------------------------------------------------------------------
// 1 + 2: compact strings
// ---------------------------------------------------------------------------

func TestVerifF8CompactString(t *testing.T) {
	t.Run("getCompactString/uvarint0_length_minus1", func(t *testing.T) {
		raw := []byte{0x00}
		err, p := f8Guard(t, len(raw), func() error {
			_, err := (&realDecoder{raw: raw}).getCompactString()
			return err
		})
		f8WantErr(t, err, p)
	})
	t.Run("getCompactString/length9_but_1_byte_left", func(t *testing.T) {
		raw := []byte{0x0A, 'a'}
		err, p := f8Guard(t, len(raw), func() error {
			_, err := (&realDecoder{raw: raw}).getCompactString()
			return err
		})
		f8WantErr(t, err, p)
	})
	t.Run("getCompactNullableString/length9_but_1_byte_left", func(t *testing.T) {
		raw := []byte{0x0A, 'a'}
		err, p := f8Guard(t, len(raw), func() error {
			_, err := (&realDecoder{raw: raw}).getCompactNullableString()
			return err
		})
		f8WantErr(t, err, p)
	})
}

// ---------------------------------------------------------------------------
// 3: compact arrays
// ---------------------------------------------------------------------------

func TestVerifF8CompactArray(t *testing.T) {
	t.Run("getCompactInt32Array/4_elements_no_data", func(t *testing.T) {
		raw := []byte{0x05}
		err, p := f8Guard(t, len(raw), func() error {
			_, err := (&realDecoder{raw: raw}).getCompactInt32Array()
			return err
		})
		f8WantErr(t, err, p)
	})
	t.Run("getCompactInt32Array/16M_elements_no_data", func(t *testing.T) {
		// 16M int32 = 64 MB are allocated before the first element is read.
		raw := f8Uvarint(16_000_000 + 1)
		err, p := f8Guard(t, len(raw), func() error {
			_, err := (&realDecoder{raw: raw}).getCompactInt32Array()
			return err
		})
		f8WantErr(t, err, p)
	})
	t.Run("getCompactArrayLength/2^40_accepted", func(t *testing.T) {
		raw := f8Uvarint(1 << 40)
		rd := &realDecoder{raw: raw}
		var n int
		err, _ := f8Guard(t, len(raw), func() error {
			var err error
			n, err = rd.getCompactArrayLength()
			return err
		})
		if err == nil && n > rd.remaining() {
			t.Errorf("getCompactArrayLength returned length %d with nil error although only %d bytes remain; callers make() a slice of that length", n, rd.remaining())
		} else {
			t.Logf("n=%d err=%v (good)", n, err)
		}
	})
	t.Run("AlterUserScramCredentialsResponse/compact_len_2^50", func(t *testing.T) {
		// int32 throttle time, then compact array length 2^50-1:
		// make([]*T, 2^50-1) -> "makeslice: len out of range".
		// (2^50 is chosen on purpose: 8*2^50 exceeds the runtime's maxAlloc so
		// the runtime panics instead of really attempting the allocation.)
		raw := f8Cat([]byte{0, 0, 0, 0}, f8Uvarint(1<<50))
		err, p := f8Guard(t, len(raw), func() error {
			return versionedDecode(raw, &AlterUserScramCredentialsResponse{}, 0)
		})
		f8WantErr(t, err, p)
	})
	t.Run("AlterUserScramCredentialsResponse/compact_len_8M", func(t *testing.T) {
		// 8M pointers = 64 MB allocated from a 8-byte message.
		raw := f8Cat([]byte{0, 0, 0, 0}, f8Uvarint(8_000_000+1))
		err, p := f8Guard(t, len(raw), func() error {
			return versionedDecode(raw, &AlterUserScramCredentialsResponse{}, 0)
		})
		f8WantErr(t, err, p)
	})
	t.Run("DescribeUserScramCredentialsResponse/compact_len_2^50", func(t *testing.T) {
		// throttle int32, error code int16, null compact error message (0x00),
		// compact array length 2^50-1.
		raw := f8Cat([]byte{0, 0, 0, 0}, []byte{0, 0}, []byte{0x00}, f8Uvarint(1<<50))
		err, p := f8Guard(t, len(raw), func() error {
			return versionedDecode(raw, &DescribeUserScramCredentialsResponse{}, 0)
		})
		f8WantErr(t, err, p)
	})
	t.Run("DescribeUserScramCredentialsResponse/compact_len_8M", func(t *testing.T) {
		raw := f8Cat([]byte{0, 0, 0, 0}, []byte{0, 0}, []byte{0x00}, f8Uvarint(8_000_000+1))
		err, p := f8Guard(t, len(raw), func() error {
			return versionedDecode(raw, &DescribeUserScramCredentialsResponse{}, 0)
		})
		f8WantErr(t, err, p)
	})
	t.Run("DescribeUserScramCredentialsResponse/inner_compact_len_2^50", func(t *testing.T) {
		// one user "u" (compact string 0x02 'u'), error code 0, null message,
		// then credential-infos compact array length 2^50-1.
		raw := f8Cat([]byte{0, 0, 0, 0}, []byte{0, 0}, []byte{0x00}, f8Uvarint(2),
			[]byte{0x02, 'u'}, []byte{0, 0}, []byte{0x00}, f8Uvarint(1<<50))
		err, p := f8Guard(t, len(raw), func() error {
			return versionedDecode(raw, &DescribeUserScramCredentialsResponse{}, 0)
		})
		f8WantErr(t, err, p)
	})
}

// ---------------------------------------------------------------------------
// 4: getStringArray
// ---------------------------------------------------------------------------

func TestVerifF8StringArray(t *testing.T) {
	t.Run("getStringArray/4M_strings_from_4_bytes", func(t *testing.T) {
		// count 0x003FFFFF (4M strings * 16 B = 64 MB) and nothing after it.
		// (0x7FFFFFFF would be 32 GB: same code path, not run for safety.)
		raw := []byte{0x00, 0x3F, 0xFF, 0xFF}
		err, p := f8Guard(t, len(raw), func() error {
			_, err := (&realDecoder{raw: raw}).getStringArray()
			return err
		})
		f8WantErr(t, err, p)
		if !p && err != nil && !errors.Is(err, ErrInsufficientData) {
			t.Errorf("expected ErrInsufficientData, got %v", err)
		}
	})
}

// ---------------------------------------------------------------------------
// 5: Record header count
// ---------------------------------------------------------------------------

func f8Record(numHeaders int64) []byte {
	body := f8Cat(
		[]byte{0x00},         // attributes
		f8Varint(0),          // timestamp delta
		f8Varint(0),          // offset delta
		f8Varint(-1),         // key: null
		f8Varint(-1),         // value: null
		f8Varint(numHeaders), // header count
	)
	// The length prefix is consistent with the bytes actually present (it is
	// only verified at pop(), i.e. after the headers have been allocated).
	return f8Cat(f8Varint(int64(len(body))), body)
}

func TestVerifF8RecordHeaders(t *testing.T) {
	t.Run("sanity/valid_record_roundtrip", func(t *testing.T) {
		// f8Record(0) must be what the encoder produces for an empty record,
		// proving the crafted layout below is right.
		want, err := encode(&Record{}, nil)
		if err != nil {
			t.Fatal(err)
		}
		if got := f8Record(0); string(got) != string(want) {
			t.Fatalf("crafted %x, encoder produced %x", got, want)
		}
		if err := decode(want, &Record{}); err != nil {
			t.Fatalf("valid record does not decode: %v", err)
		}
	})
	t.Run("numHeaders_8M", func(t *testing.T) {
		raw := f8Record(8_000_000) // 8M pointers = 64 MB
		err, p := f8Guard(t, len(raw), func() error {
			return decode(raw, &Record{})
		})
		f8WantErr(t, err, p)
	})
	t.Run("numHeaders_2^50", func(t *testing.T) {
		raw := f8Record(1 << 50) // makeslice: len out of range
		err, p := f8Guard(t, len(raw), func() error {
			return decode(raw, &Record{})
		})
		f8WantErr(t, err, p)
	})
}

// ---------------------------------------------------------------------------
// 6: response decoders, array length -1 (and other negatives)
// ---------------------------------------------------------------------------

func TestVerifF8NegativeArrayLength(t *testing.T) {
	i32 := []byte{0, 0, 0, 0} // throttle time etc.
	i16 := []byte{0, 0}       // error code etc.
	emptyStr := []byte{0, 0}  // int16 length 0
	strT := []byte{0, 1, 't'} // string "t"
	one := []byte{0, 0, 0, 1} // array length 1

	cases := []struct {
		name    string
		raw     []byte
		in      versionedDecoder
		version int16
	}{
		{"MetadataResponse_v0/brokers", f8Cat(f8MinusOne), &MetadataResponse{}, 0},
		{"MetadataResponse_v3/brokers", f8Cat(i32, f8MinusOne), &MetadataResponse{}, 3},
		{"MetadataResponse_v0/topics", f8Cat([]byte{0, 0, 0, 0}, f8MinusOne), &MetadataResponse{}, 0},
		{"MetadataResponse_v0/topic_partitions", f8Cat([]byte{0, 0, 0, 0}, one, i16, strT, f8MinusOne), &MetadataResponse{}, 0},
		{"DescribeGroupsResponse/groups", f8Cat(f8MinusOne), &DescribeGroupsResponse{}, 0},
		{"ApiVersionsResponse/api_versions", f8Cat(i16, f8MinusOne), &ApiVersionsResponse{}, 0},
		{"CreateAclsResponse/creation_responses", f8Cat(i32, f8MinusOne), &CreateAclsResponse{}, 0},
		{"DescribeLogDirsResponse/log_dirs", f8Cat(i32, f8MinusOne), &DescribeLogDirsResponse{}, 0},
		{"DescribeLogDirsResponse/dir_topics", f8Cat(i32, one, i16, strT, f8MinusOne), &DescribeLogDirsResponse{}, 0},
		{"DescribeLogDirsResponse/topic_partitions", f8Cat(i32, one, i16, strT, one, strT, f8MinusOne), &DescribeLogDirsResponse{}, 0},
		{"DeleteAclsResponse/filter_responses", f8Cat(i32, f8MinusOne), &DeleteAclsResponse{}, 0},
		{"DeleteAclsResponse/matching_acls", f8Cat(i32, one, i16, emptyStr, f8MinusOne), &DeleteAclsResponse{}, 0},
		{"DescribeAclsResponse/resource_acls", f8Cat(i32, i16, emptyStr, f8MinusOne), &DescribeAclsResponse{}, 0},
		{"AlterConfigsResponse/resources", f8Cat(i32, f8MinusOne), &AlterConfigsResponse{}, 0},
		{"IncrementalAlterConfigsResponse/resources", f8Cat(i32, f8MinusOne), &IncrementalAlterConfigsResponse{}, 0},
		{"DescribeConfigsResponse/resources", f8Cat(i32, f8MinusOne), &DescribeConfigsResponse{}, 0},
		{"DescribeConfigsResponse/configs", f8Cat(i32, one, i16, emptyStr, []byte{0}, strT, f8MinusOne), &DescribeConfigsResponse{}, 0},
		{"AddPartitionsToTxnResponse/partition_errors", f8Cat(i32, one, strT, f8MinusOne), &AddPartitionsToTxnResponse{}, 0},
		{"TxnOffsetCommitResponse/partition_errors", f8Cat(i32, one, strT, f8MinusOne), &TxnOffsetCommitResponse{}, 0},
		// any negative int32 passes getArrayLength, not only -1
		{"MetadataResponse_v0/brokers_minus2", []byte{0xFF, 0xFF, 0xFF, 0xFE}, &MetadataResponse{}, 0},
		{"DescribeGroupsResponse/groups_minint32", []byte{0x80, 0x00, 0x00, 0x00}, &DescribeGroupsResponse{}, 0},
	}
	for _, c := range cases {
		c := c
		t.Run(c.name, func(t *testing.T) {
			err, p := f8Guard(t, len(c.raw), func() error {
				return versionedDecode(c.raw, c.in, c.version)
			})
			f8WantErr(t, err, p)
		})
	}
}

// ---------------------------------------------------------------------------
// 7: SASL handshake response header
// ---------------------------------------------------------------------------

// f8FakeSASLServer accepts one connection, swallows the handshake request and
// answers with the given 8 header bytes, then closes.
func f8FakeSASLServer(t *testing.T, header []byte) (addr string, stop func()) {
	t.Helper()
	ln, err := net.Listen("tcp", "127.0.0.1:0")
	if err != nil {
		t.Skipf("cannot listen on loopback: %v", err)
	}
	done := make(chan struct{})
	go func() {
		defer close(done)
		c, err := ln.Accept()
		if err != nil {
			return
		}
		defer c.Close()
		_ = c.SetDeadline(time.Now().Add(5 * time.Second))
		var lenBuf [4]byte
		if _, err := readFullConn(c, lenBuf[:]); err != nil {
			return
		}
		req := make([]byte, binary.BigEndian.Uint32(lenBuf[:]))
		if _, err := readFullConn(c, req); err != nil {
			return
		}
		_, _ = c.Write(header)
		// closing makes the client's readFull(payload) return promptly
	}()
	return ln.Addr().String(), func() { ln.Close(); <-done }
}

func readFullConn(c net.Conn, buf []byte) (int, error) {
	n := 0
	for n < len(buf) {
		m, err := c.Read(buf[n:])
		n += m
		if err != nil {
			return n, err
		}
	}
	return n, nil
}

func f8HandshakeAgainst(t *testing.T, header []byte) error {
	t.Helper()
	addr, stop := f8FakeSASLServer(t, header)
	defer stop()
	conn, err := net.DialTimeout("tcp", addr, 2*time.Second)
	if err != nil {
		t.Skipf("cannot dial loopback: %v", err)
	}
	defer conn.Close()
	conf := NewConfig()
	conf.Net.ReadTimeout = 2 * time.Second
	conf.Net.WriteTimeout = 2 * time.Second
	b := NewBroker(addr)
	b.conf = conf
	b.conn = conn
	// same global metrics as Broker.Open sets up
	b.incomingByteRate = metrics.GetOrRegisterMeter("incoming-byte-rate", conf.MetricRegistry)
	b.requestRate = metrics.GetOrRegisterMeter("request-rate", conf.MetricRegistry)
	b.requestSize = getOrRegisterHistogram("request-size", conf.MetricRegistry)
	b.requestLatency = getOrRegisterHistogram("request-latency-in-ms", conf.MetricRegistry)
	b.outgoingByteRate = metrics.GetOrRegisterMeter("outgoing-byte-rate", conf.MetricRegistry)
	b.responseRate = metrics.GetOrRegisterMeter("response-rate", conf.MetricRegistry)
	b.responseSize = getOrRegisterHistogram("response-size", conf.MetricRegistry)
	b.requestsInFlight = metrics.GetOrRegisterCounter("requests-in-flight", conf.MetricRegistry)
	return b.sendAndReceiveSASLHandshake(SASLTypePlaintext, SASLHandshakeV0)
}

func TestVerifF8SASLHandshake(t *testing.T) {
	t.Run("length_150MB_above_MaxResponseSize", func(t *testing.T) {
		// Same statement as the underflow (make([]byte, length-4)), with a
		// length that is affordable: 150 MB announced by an 8-byte header,
		// MaxResponseSize being 100 MB. The pages are never touched (the
		// server closes right away) so RSS stays low.
		header := make([]byte, 8)
		binary.BigEndian.PutUint32(header[:4], 150_000_000)
		err, p := f8Guard(t, len(header), func() error {
			return f8HandshakeAgainst(t, header)
		})
		f8WantErr(t, err, p)
		var pde PacketDecodingError
		if !p && err != nil && !errors.As(err, &pde) {
			t.Errorf("expected PacketDecodingError, got %T %v", err, err)
		}
	})
	t.Run("length_0_uint32_underflow_subprocess", func(t *testing.T) {
		// length 0 -> make([]byte, 0xFFFFFFFC) (~4 GB). Run it in a child
		// process whose address space is capped by `ulimit -v` so that the
		// allocation fails fast ("fatal error: runtime: out of memory" /
		// "cannot allocate memory") instead of really consuming 4 GB.
		if _, err := exec.LookPath("sh"); err != nil {
			t.Skip("no sh")
		}
		cmd := exec.Command("sh", "-c",
			fmt.Sprintf("ulimit -v 2000000 || exit 77; exec %q -test.run '^TestVerifF8SASLChild$' -test.v -test.count=1", os.Args[0]))
		cmd.Env = append(os.Environ(), "VERIF_F8_SASL_CHILD=1", "GOGC=off")
		out, err := cmd.CombinedOutput()
		s := string(out)
		if ee := (*exec.ExitError)(nil); errors.As(err, &ee) && ee.ExitCode() == 77 {
			t.Skipf("ulimit -v not available: %s", s)
		}
		if err != nil {
			if len(s) > 1500 {
				s = s[:1500] + "\n...[truncated]"
			}
			t.Errorf("child crashed on a SASL handshake header with length 0 (make([]byte, length-4) underflows to 4294967292): %v\n%s", err, s)
			return
		}
		if !strings.Contains(s, "F8CHILD handshake returned error") {
			t.Errorf("child did not report a clean error:\n%s", s)
		} else {
			t.Logf("child returned a clean error (good)")
		}
	})
}

// TestVerifF8SASLChild is only meaningful as a child of
// TestVerifF8SASLHandshake/length_0_uint32_underflow_subprocess.
func TestVerifF8SASLChild(t *testing.T) {
	if os.Getenv("VERIF_F8_SASL_CHILD") != "1" {
		t.Skip("helper for TestVerifF8SASLHandshake")
	}
	header := make([]byte, 8) // length 0, correlation id 0
	err := f8HandshakeAgainst(t, header)
	if err == nil {
		t.Fatalf("F8CHILD handshake returned nil")
	}
	fmt.Printf("F8CHILD handshake returned error: %v\n", err)
}
