package sarama

import "testing"

// TestVerifF2CustomFallbackPartitionerIgnoresArgument shows that
// WithCustomFallbackPartitioner ignores the supplied fallback partitioner and
// instead installs the hashPartitioner as its own fallback. A message with a
// nil Key would then recurse forever in hashPartitioner.Partition (fatal stack
// overflow), so this test only inspects the wiring and never calls Partition
// on a self-referencing partitioner.
func TestVerifF2CustomFallbackPartitionerIgnoresArgument(t *testing.T) {
	fallback := NewReferenceHashPartitioner("fallback_topic").(*hashPartitioner)

	p := NewCustomPartitioner(WithCustomFallbackPartitioner(fallback))("my_topic")
	hp, ok := p.(*hashPartitioner)
	if !ok {
		t.Fatalf("expected *hashPartitioner, got %T", p)
	}

	if hp.random == Partitioner(hp) {
		t.Errorf("hashPartitioner is its own fallback (hp.random == hp): " +
			"a message with a nil Key would recurse forever in Partition")
	}
	if hp.random != Partitioner(fallback) {
		t.Fatalf("fallback partitioner is %T(%p), want the supplied one %T(%p)",
			hp.random, hp.random, fallback, fallback)
	}

	// Only reached when the wiring is correct (no self reference): a nil-key
	// message must be routed through the supplied fallback. The fallback's own
	// fallback is a random partitioner, so this terminates.
	choice, err := p.Partition(&ProducerMessage{}, 10)
	if err != nil {
		t.Fatal(err)
	}
	if choice < 0 || choice >= 10 {
		t.Fatalf("partition %d out of range [0,10)", choice)
	}
}
