package sarama

import (
	"sync"
	"sync/atomic"
	"testing"
	"time"
)

// TestVerifF1RetryBatchPartialDisposal demonstrates that, with an idempotent
// producer, a batch of N>1 messages whose retry budget is exhausted in
// (*asyncProducer).retryBatch only gets ONE error event; the other N-1
// messages are never disposed (no success, no error), so inFlight never
// reaches zero and AsyncClose()/Close() never completes.
func TestVerifF1RetryBatchPartialDisposal(t *testing.T) {
	const batchSize = 3

	broker := NewMockBroker(t, 1)
	defer broker.Close()

	metadataResponse := &MetadataResponse{
		Version:      1,
		ControllerID: 1,
	}
	metadataResponse.AddBroker(broker.Addr(), broker.BrokerID())
	metadataResponse.AddTopicPartition("my_topic", 0, broker.BrokerID(), nil, nil, nil, ErrNoError)

	initProducerIDResponse := &InitProducerIDResponse{
		ThrottleTime:  0,
		ProducerID:    1000,
		ProducerEpoch: 1,
	}

	prodNotLeaderResponse := &ProduceResponse{
		Version:      3,
		ThrottleTime: 0,
	}
	prodNotLeaderResponse.AddTopicPartition("my_topic", 0, ErrNotLeaderForPartition)

	var produceRequests int32
	var badBatch int32
	broker.setHandler(func(req *request) (res encoderWithHeader) {
		switch req.body.key() {
		case 3:
			return metadataResponse
		case 22:
			return initProducerIDResponse
		case 0:
			atomic.AddInt32(&produceRequests, 1)
			preq := req.body.(*ProduceRequest)
			if n := len(preq.records["my_topic"][0].RecordBatch.Records); n != batchSize {
				atomic.StoreInt32(&badBatch, int32(n))
			}
			// always a retriable per-partition error
			return prodNotLeaderResponse
		}
		return nil
	})

	config := NewTestConfig()
	config.Version = V0_11_0_0
	config.Producer.Idempotent = true
	config.Net.MaxOpenRequests = 1
	config.Producer.RequiredAcks = WaitForAll
	config.Producer.Return.Successes = true
	config.Producer.Return.Errors = true
	config.Producer.Flush.Messages = batchSize
	config.Producer.Retry.Max = 1
	config.Producer.Retry.Backoff = 0

	producer, err := NewAsyncProducer([]string{broker.Addr()}, config)
	if err != nil {
		t.Fatal(err)
	}

	for i := 0; i < batchSize; i++ {
		producer.Input() <- &ProducerMessage{Topic: "my_topic", Key: nil, Value: StringEncoder(TestMessage)}
	}

	// Every submitted message must yield exactly one outcome.
	gotErrors, gotSuccesses := 0, 0
	deadline := time.After(5 * time.Second)
collect:
	for gotErrors+gotSuccesses < batchSize {
		select {
		case pErr := <-producer.Errors():
			gotErrors++
			if pErr.Err != ErrNotLeaderForPartition {
				t.Errorf("unexpected error kind: %v", pErr.Err)
			}
		case <-producer.Successes():
			gotSuccesses++
		case <-deadline:
			break collect
		}
	}

	if n := atomic.LoadInt32(&badBatch); n != 0 {
		t.Errorf("test precondition: expected every produce request to carry %d records, saw %d", batchSize, n)
	}
	t.Logf("produce requests seen by broker: %d; outcomes: %d errors, %d successes (submitted %d)",
		atomic.LoadInt32(&produceRequests), gotErrors, gotSuccesses, batchSize)

	if gotErrors+gotSuccesses != batchSize {
		t.Errorf("only %d of %d submitted messages got an outcome within 5s (errors=%d successes=%d): "+
			"the rest of the batch was silently dropped by retryBatch",
			gotErrors+gotSuccesses, batchSize, gotErrors, gotSuccesses)
	}

	// Shutdown must complete: it waits on inFlight, which leaks when messages are never disposed.
	producer.AsyncClose()
	closed := make(chan struct{})
	go func() {
		var wg sync.WaitGroup
		wg.Add(2)
		go func() {
			for range producer.Successes() {
			}
			wg.Done()
		}()
		go func() {
			for range producer.Errors() {
			}
			wg.Done()
		}()
		wg.Wait()
		close(closed)
	}()
	select {
	case <-closed:
	case <-time.After(3 * time.Second):
		t.Errorf("AsyncClose() did not complete within 3s: inFlight never drained")
	}
}
