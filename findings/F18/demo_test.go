package sarama

import "testing"

// A previous owner (lower generation) that no longer subscribes to the topic gets the partition back
// through the prevAssignment branch of performReassignments.
func TestF18StickyPrevOwnerNotSubscribed(t *testing.T) {
	s := &stickyBalanceStrategy{}
	ud := func(gen int32, topics map[string][]int32) []byte {
		b, err := encode(&StickyAssignorUserDataV1{Topics: topics, Generation: gen}, nil)
		if err != nil {
			t.Fatal(err)
		}
		return b
	}
	members := map[string]ConsumerGroupMemberMetadata{
		"C": {Topics: []string{"T"}, UserData: ud(2, map[string][]int32{"T": {0, 1, 2, 3}})},
		"D": {Topics: []string{"T"}},
		"P": {Topics: []string{"U"}, UserData: ud(1, map[string][]int32{"T": {0}})},
	}
	topics := map[string][]int32{"T": {0, 1, 2, 3}, "U": {0}}
	plan, err := s.Plan(members, topics)
	if err != nil {
		t.Fatal(err)
	}
	t.Logf("plan: %v", plan)
	seen := map[string]map[int32]string{}
	for m, tp := range plan {
		for topic, ps := range tp {
			sub := false
			for _, st := range members[m].Topics {
				if st == topic {
					sub = true
				}
			}
			if !sub {
				t.Errorf("member %s got %s%v but does not subscribe to it", m, topic, ps)
			}
			for _, p := range ps {
				if seen[topic] == nil {
					seen[topic] = map[int32]string{}
				}
				if o, dup := seen[topic][p]; dup {
					t.Errorf("%s/%d assigned to %s and %s", topic, p, o, m)
				}
				seen[topic][p] = m
			}
		}
	}
	for topic, ps := range topics {
		for _, p := range ps {
			if _, ok := seen[topic][p]; !ok {
				t.Errorf("%s/%d is assigned to nobody", topic, p)
			}
		}
	}
}
