package sarama

import (
	"sync/atomic"
	"testing"
	"time"
)

// verifF10MockFunc adapts a func to the MockResponse interface.
type verifF10MockFunc func(reqBody versionedDecoder) encoderWithHeader

func (f verifF10MockFunc) For(reqBody versionedDecoder) encoderWithHeader { return f(reqBody) }

func verifF10CountRequests(b *MockBroker, match func(protocolBody) bool) int {
	n := 0
	for _, rr := range b.History() {
		if match(rr.Request) {
			n++
		}
	}
	return n
}

func verifF10IsAlter(p protocolBody) bool {
	_, ok := p.(*AlterPartitionReassignmentsRequest)
	return ok
}

func verifF10IsCreateTopics(p protocolBody) bool {
	_, ok := p.(*CreateTopicsRequest)
	return ok
}

// TestVerifF10AlterPartitionReassignmentsControllerMoved: the controller moves
// from broker 1 to broker 2. Broker 1 answers AlterPartitionReassignments with
// the top-level error NOT_CONTROLLER; from then on metadata names broker 2 as
// the controller, and broker 2 answers success. Expected (same as
// CreateTopic/DeleteTopic/CreatePartitions): the admin refreshes the
// controller and retries, so the call returns nil and broker 2 gets the request.
func TestVerifF10AlterPartitionReassignmentsControllerMoved(t *testing.T) {
	oldController := NewMockBroker(t, 1)
	defer oldController.Close()
	newController := NewMockBroker(t, 2)
	defer newController.Close()

	var moved int32 // 0: broker 1 is the controller, 1: broker 2 is

	mdOld := NewMockMetadataResponse(t).
		SetController(oldController.BrokerID()).
		SetBroker(oldController.Addr(), oldController.BrokerID()).
		SetBroker(newController.Addr(), newController.BrokerID())
	mdNew := NewMockMetadataResponse(t).
		SetController(newController.BrokerID()).
		SetBroker(oldController.Addr(), oldController.BrokerID()).
		SetBroker(newController.Addr(), newController.BrokerID())
	metadata := verifF10MockFunc(func(reqBody versionedDecoder) encoderWithHeader {
		if atomic.LoadInt32(&moved) == 1 {
			return mdNew.For(reqBody)
		}
		return mdOld.For(reqBody)
	})

	oldController.SetHandlerByMap(map[string]MockResponse{
		"MetadataRequest": metadata,
		"AlterPartitionReassignmentsRequest": verifF10MockFunc(func(reqBody versionedDecoder) encoderWithHeader {
			req := reqBody.(*AlterPartitionReassignmentsRequest)
			atomic.StoreInt32(&moved, 1)
			return &AlterPartitionReassignmentsResponse{Version: req.Version, ErrorCode: ErrNotController}
		}),
	})
	newController.SetHandlerByMap(map[string]MockResponse{
		"MetadataRequest":                    metadata,
		"AlterPartitionReassignmentsRequest": NewMockAlterPartitionReassignmentsResponse(t),
	})

	config := NewTestConfig()
	config.Version = V2_4_0_0
	config.Admin.Retry.Max = 3
	config.Admin.Retry.Backoff = 10 * time.Millisecond
	admin, err := NewClusterAdmin([]string{oldController.Addr()}, config)
	if err != nil {
		t.Fatal(err)
	}
	defer func() { _ = admin.Close() }()

	done := make(chan error, 1)
	go func() { done <- admin.AlterPartitionReassignments("my_topic", [][]int32{{1, 2}}) }()
	select {
	case err = <-done:
	case <-time.After(10 * time.Second):
		t.Fatal("AlterPartitionReassignments did not return within 10s")
	}

	onOld := verifF10CountRequests(oldController, verifF10IsAlter)
	onNew := verifF10CountRequests(newController, verifF10IsAlter)
	t.Logf("AlterPartitionReassignments requests: old controller=%d, new controller=%d, err=%v", onOld, onNew, err)

	if err != nil {
		t.Errorf("expected NOT_CONTROLLER to be retried against the new controller, got error: %v", err)
	}
	if onOld != 1 {
		t.Errorf("old controller: expected exactly 1 AlterPartitionReassignments request, got %d", onOld)
	}
	if onNew != 1 {
		t.Errorf("new controller: expected exactly 1 AlterPartitionReassignments request (the retry), got %d", onNew)
	}
}

// TestVerifF10AlterPartitionReassignmentsNoRetryVsCreateTopic: a single broker
// that always answers NOT_CONTROLLER. With Admin.Retry.Max=3 CreateTopic is
// attempted 3 times, AlterPartitionReassignments must behave the same way.
func TestVerifF10AlterPartitionReassignmentsNoRetryVsCreateTopic(t *testing.T) {
	broker := NewMockBroker(t, 1)
	defer broker.Close()

	broker.SetHandlerByMap(map[string]MockResponse{
		"MetadataRequest": NewMockMetadataResponse(t).
			SetController(broker.BrokerID()).
			SetBroker(broker.Addr(), broker.BrokerID()),
		"AlterPartitionReassignmentsRequest": verifF10MockFunc(func(reqBody versionedDecoder) encoderWithHeader {
			req := reqBody.(*AlterPartitionReassignmentsRequest)
			return &AlterPartitionReassignmentsResponse{Version: req.Version, ErrorCode: ErrNotController}
		}),
		"CreateTopicsRequest": verifF10MockFunc(func(reqBody versionedDecoder) encoderWithHeader {
			req := reqBody.(*CreateTopicsRequest)
			res := &CreateTopicsResponse{Version: req.Version, TopicErrors: map[string]*TopicError{}}
			for topic := range req.TopicDetails {
				res.TopicErrors[topic] = &TopicError{Err: ErrNotController}
			}
			return res
		}),
	})

	config := NewTestConfig()
	config.Version = V2_4_0_0
	config.Admin.Retry.Max = 3
	config.Admin.Retry.Backoff = 10 * time.Millisecond
	admin, err := NewClusterAdmin([]string{broker.Addr()}, config)
	if err != nil {
		t.Fatal(err)
	}
	defer func() { _ = admin.Close() }()

	errCreate := admin.CreateTopic("my_topic", &TopicDetail{NumPartitions: 1, ReplicationFactor: 1}, false)
	errAlter := admin.AlterPartitionReassignments("my_topic", [][]int32{{1}})

	nCreate := verifF10CountRequests(broker, verifF10IsCreateTopics)
	nAlter := verifF10CountRequests(broker, verifF10IsAlter)
	t.Logf("CreateTopic attempts=%d (err=%v)", nCreate, errCreate)
	t.Logf("AlterPartitionReassignments attempts=%d (err=%v)", nAlter, errAlter)

	if errCreate == nil || errAlter == nil {
		t.Fatalf("both calls must end in an error: create=%v alter=%v", errCreate, errAlter)
	}
	if nCreate != 3 {
		t.Errorf("baseline broken: CreateTopic attempted %d times, expected Admin.Retry.Max=3", nCreate)
	}
	if nAlter != 3 {
		t.Errorf("AlterPartitionReassignments attempted %d time(s) on NOT_CONTROLLER, expected Admin.Retry.Max=3 like CreateTopic", nAlter)
	}
}
