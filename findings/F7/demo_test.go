package sarama

import (
	"encoding/binary"
	"fmt"
	"io"
	"net"
	"sync"
	"sync/atomic"
	"testing"
	"time"
)

// TestVerifF7MaxOpenRequestsExceeded demonstrates that Broker.send() writes a
// request to the wire BEFORE acquiring an in-flight slot (b.responses <- promise),
// so that Net.MaxOpenRequests+1 requests can be on the wire, unanswered, at the
// same time. Config doc: "How many outstanding requests a connection is allowed
// to have before sending on it blocks".
func TestVerifF7MaxOpenRequestsExceeded(t *testing.T) {
	for _, maxOpen := range []int{1, 2} {
		maxOpen := maxOpen
		t.Run(fmt.Sprintf("MaxOpenRequests=%d", maxOpen), func(t *testing.T) {
			verifF7Run(t, maxOpen)
		})
	}
}

func verifF7Run(t *testing.T, maxOpen int) {
	ln, err := net.Listen("tcp", "127.0.0.1:0")
	if err != nil {
		t.Fatal(err)
	}

	var received int32 // complete request frames seen by the fake broker
	connCh := make(chan net.Conn, 1)
	serverDone := make(chan struct{})
	go func() {
		defer close(serverDone)
		conn, err := ln.Accept()
		if err != nil {
			return
		}
		connCh <- conn
		// Read complete frames, count them, NEVER answer.
		for {
			var hdr [4]byte
			if _, err := io.ReadFull(conn, hdr[:]); err != nil {
				return
			}
			n := binary.BigEndian.Uint32(hdr[:])
			if _, err := io.CopyN(io.Discard, conn, int64(n)); err != nil {
				return
			}
			atomic.AddInt32(&received, 1)
		}
	}()

	conf := NewConfig()
	conf.Net.MaxOpenRequests = maxOpen
	conf.Net.DialTimeout = 1 * time.Second
	conf.Net.ReadTimeout = 5 * time.Second
	conf.Net.WriteTimeout = 5 * time.Second

	b := NewBroker(ln.Addr().String())
	if err := b.Open(conf); err != nil {
		t.Fatal(err)
	}
	if ok, err := b.Connected(); !ok || err != nil {
		t.Fatalf("not connected: %v %v", ok, err)
	}

	const N = 4
	var wg sync.WaitGroup
	for i := 0; i < N; i++ {
		wg.Add(1)
		go func() {
			defer wg.Done()
			_, _ = b.GetMetadata(&MetadataRequest{}) // will fail once the conn is closed
		}()
	}

	time.Sleep(500 * time.Millisecond)
	got := int(atomic.LoadInt32(&received))

	// Tear down: closing the server side of the connection makes the
	// responseReceiver fail its read, which then drains every promise.
	_ = ln.Close()
	select {
	case c := <-connCh:
		_ = c.Close()
	default:
	}
	finished := make(chan struct{})
	go func() { wg.Wait(); close(finished) }()
	select {
	case <-finished:
	case <-time.After(10 * time.Second):
		t.Error("client goroutines did not finish after the connection was closed")
	}
	closed := make(chan struct{})
	go func() { _ = b.Close(); close(closed) }()
	select {
	case <-closed:
	case <-time.After(5 * time.Second):
		t.Error("broker.Close() did not return")
	}
	<-serverDone

	t.Logf("MaxOpenRequests=%d: fake broker received %d complete request frames with 0 responses sent", maxOpen, got)
	if got > maxOpen {
		t.Errorf("in-flight bound violated: %d unanswered requests on the wire, Net.MaxOpenRequests=%d", got, maxOpen)
	}
	if got == 0 {
		t.Errorf("fake broker received no request at all (test setup problem)")
	}
}
