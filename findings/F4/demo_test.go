package sarama

import (
	"sync"
	"testing"
	"time"
)

// verifF4CountingInterceptor counts how many times OnSend is invoked for each
// distinct *ProducerMessage, and how many of those invocations were for
// internal marker messages (flags != 0) that the user never submitted.
type verifF4CountingInterceptor struct {
	mu      sync.Mutex
	calls   map[*ProducerMessage]int
	total   int
	markers int
}

func (c *verifF4CountingInterceptor) OnSend(msg *ProducerMessage) {
	c.mu.Lock()
	defer c.mu.Unlock()
	if c.calls == nil {
		c.calls = make(map[*ProducerMessage]int)
	}
	c.calls[msg]++
	c.total++
	if msg.flags != 0 {
		c.markers++
	}
}

// TestVerifF4InterceptorAppliedOncePerMessageOnRetry checks that a producer
// interceptor is applied exactly once to each submitted message, even when the
// message goes through the retry path of the async producer.
func TestVerifF4InterceptorAppliedOncePerMessageOnRetry(t *testing.T) {
	seedBroker := NewMockBroker(t, 1)
	leader := NewMockBroker(t, 2)
	defer leader.Close()

	metadataLeader := new(MetadataResponse)
	metadataLeader.AddBroker(leader.Addr(), leader.BrokerID())
	metadataLeader.AddTopicPartition("my_topic", 0, leader.BrokerID(), nil, nil, nil, ErrNoError)
	seedBroker.Returns(metadataLeader)

	counter := &verifF4CountingInterceptor{}
	appender := &appendInterceptor{i: 0}

	config := NewTestConfig()
	config.Producer.Flush.Messages = 1
	config.Producer.Return.Successes = true
	config.Producer.Return.Errors = true
	config.Producer.Retry.Max = 3
	config.Producer.Retry.Backoff = 0
	config.Producer.Interceptors = []ProducerInterceptor{counter, appender}

	producer, err := NewAsyncProducer([]string{seedBroker.Addr()}, config)
	if err != nil {
		seedBroker.Close()
		t.Fatal(err)
	}
	// Close the seed broker so that the metadata refresh triggered by the retry
	// is served by the leader (same pattern as TestAsyncProducerFailureRetry).
	seedBroker.Close()

	// 1st produce request: retriable error; then metadata refresh (same leader);
	// then the retried produce request succeeds.
	prodNotLeader := new(ProduceResponse)
	prodNotLeader.AddTopicPartition("my_topic", 0, ErrNotLeaderForPartition)
	leader.Returns(prodNotLeader)
	leader.Returns(metadataLeader)
	prodSuccess := new(ProduceResponse)
	prodSuccess.AddTopicPartition("my_topic", 0, ErrNoError)
	leader.Returns(prodSuccess)

	sent := &ProducerMessage{Topic: "my_topic", Key: nil, Value: StringEncoder(TestMessage)}
	select {
	case producer.Input() <- sent:
	case <-time.After(10 * time.Second):
		t.Fatal("timeout sending message to producer input")
	}

	var got *ProducerMessage
	select {
	case got = <-producer.Successes():
	case perr := <-producer.Errors():
		t.Fatalf("unexpected producer error: %v", perr)
	case <-time.After(10 * time.Second):
		t.Fatal("timeout waiting for producer result")
	}

	closed := make(chan error, 1)
	go func() { closed <- producer.Close() }()
	select {
	case err := <-closed:
		if err != nil {
			t.Error(err)
		}
	case <-time.After(10 * time.Second):
		t.Fatal("timeout closing producer")
	}

	if got != sent {
		t.Fatalf("success is not the message that was sent")
	}
	// Sanity check of the scenario: the leader must have seen two produce
	// requests (the rejected one and the retried one), i.e. exactly one retry.
	produceRequests := 0
	for _, rr := range leader.History() {
		if _, ok := rr.Request.(*ProduceRequest); ok {
			produceRequests++
		}
	}
	if produceRequests != 2 {
		t.Fatalf("test setup problem: expected 2 produce requests (1 retry), got %d", produceRequests)
	}

	counter.mu.Lock()
	defer counter.mu.Unlock()

	if n := counter.calls[sent]; n != 1 {
		t.Errorf("interceptor OnSend invoked %d times for the same submitted message (which was retried once), want exactly 1", n)
	}
	if counter.markers != 0 {
		t.Errorf("interceptor OnSend invoked %d times on internal marker messages (flags != 0), want 0", counter.markers)
	}
	if counter.total != 1 {
		t.Errorf("interceptor OnSend invoked %d times in total for 1 submitted message, want 1", counter.total)
	}

	// Visible user-facing effect: the value was mutated more than once.
	v, _ := got.Value.Encode()
	if want := TestMessage + "0"; string(v) != want {
		t.Errorf("message value after interceptors = %q, want %q (interceptor mutated the message again on retry)", string(v), want)
	}
}
