package sarama

import "testing"

// A DescribeConfigsResponse (v1) cut short inside a config synonym must be refused; ConfigSynonym.decode
// swallows the decoder's error, so the truncated response is accepted with a partly filled synonym.
func TestF19TruncatedConfigSynonymIsRefused(t *testing.T) {
	res := &DescribeConfigsResponse{
		Version: 1,
		Resources: []*ResourceResponse{{
			Type: TopicResource,
			Name: "t",
			Configs: []*ConfigEntry{{
				Name:   "segment.ms",
				Value:  "1000",
				Source: SourceDefault,
				Synonyms: []*ConfigSynonym{{
					ConfigName:  "log.segment.ms",
					ConfigValue: "1000",
					Source:      SourceStaticBroker,
				}},
			}},
		}},
	}
	full, err := encode(res, nil)
	if err != nil {
		t.Fatal(err)
	}
	back := &DescribeConfigsResponse{}
	if err := versionedDecode(full, back, 1); err != nil {
		t.Fatalf("complete response refused: %v", err)
	}
	for cut := 1; cut <= 8; cut++ {
		got := &DescribeConfigsResponse{}
		err := versionedDecode(full[:len(full)-cut], got, 1)
		if err == nil {
			syn := got.Resources[0].Configs[0].Synonyms[0]
			t.Errorf("response truncated by %d byte(s) was accepted; synonym decoded as %+v", cut, *syn)
		}
	}
}
