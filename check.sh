#!/bin/sh
# usage: check.sh <property-id> [quick|thorough]
#        check.sh --replay <replay-file>
# Static analysis only: loads /repo's current working tree (go/packages), builds SSA, evaluates the
# property's rules.  Exit 0 = every rule instance holds (or is a listed known finding); exit 1 with
# "VIOLATION property=<id> replay=<path>" otherwise.
export GOFLAGS=-mod=mod GOPROXY=off GOSUMDB=off GOTOOLCHAIN=local GOWORK=off
unset GOARCH GOOS
V=/verif
if [ ! -x $V/bin/sacheck ] || [ -n "$(find $V/sacheck \( -name '*.go' -o -name '*.txt' -o -name 'go.mod' \) -newer $V/bin/sacheck 2>/dev/null | head -1)" ]; then
  (cd $V/sacheck && go build -o $V/bin/sacheck .) || { echo "VIOLATION property=${1:-?} replay=$V/evidence/replay/build-failed.json"; exit 1; }
fi
if [ "$1" = "--replay" ]; then
  exec $V/bin/sacheck -replay "$2" -repo "${VERIF_REPO:-/repo}" -verif $V
fi
ID="$1"; TIER="${2:-${VERIF_TIER:-quick}}"
exec $V/bin/sacheck -prop "$ID" -tier "$TIER" -repo "${VERIF_REPO:-/repo}" -verif $V
