#!/usr/bin/env python3
"""store_seed.py <prop> <k> <initially_caught:yes|no> <caught_by_rules> <strengthening-or-> <needs...>
Copies /tmp/seed_<prop>_<k>_out into /verif/seeded/<prop>_<k>/ and writes meta.json."""
import sys, json, os, shutil, subprocess, re
prop, k, initially, rules, strengthening = sys.argv[1:6]
needs = " ".join(sys.argv[6:])
src = "/tmp/seed_%s_%s_out" % (prop, k)
dst = "/verif/seeded/%s_%s" % (prop, k)
os.makedirs(dst, exist_ok=True)
for f in ("patch.diff", "demo_test.go", "notes.md"):
    shutil.copy(os.path.join(src, f), os.path.join(dst, f))
if not needs:
    notes = open(os.path.join(src, "notes.md")).read()
    m = re.search(r"^#+[^\n]*(?:need|manifest)[^\n]*\n(.*?)(?=^#+ |\Z)", notes, re.S | re.M | re.I)
    needs = re.sub(r"\s+", " ", m.group(1)).strip() if m else "see notes.md"
pkg = "mocks" if open(os.path.join(src, "demo_test.go")).read().lstrip().startswith("package mocks") else "."
val = ""
for fn in os.listdir("/tmp"):
    if fn.startswith("validate_results"):
        txt = open("/tmp/" + fn).read()
        m = re.search(r"######## %s_%s\n(.*?)(?=\n######## |\Z)" % (prop, k), txt, re.S)
        if m: val = m.group(1).strip()
meta = {
 "property": prop,
 "summary": os.environ.get("SUMMARY") or (json.load(open(os.path.join(dst, "meta.json"))).get("summary", "") if os.path.exists(os.path.join(dst, "meta.json")) else ""),
 "breaks": "see notes.md (written by the sub-agent that seeded the change)",
 "needs_to_manifest": needs,
 "demo": {"file": "demo_test.go", "package_dir": pkg, "run": "go test -vet=off -count=1 -run TestSeed ./" + pkg},
 "confirmed_by_me": {
   "how": "tools/validate_seed.sh in a scratch worktree of /repo HEAD: demo without the change, demo with the change, existing suite (. ./mocks ./examples/...) with the change",
   "output_tail": val[-1500:],
 },
 "checked_with": "tools/try_seed.sh (git -C /repo apply patch.diff; every check's quick analysis; git checkout -- .)",
 "detected_on_first_run": initially == "yes",
 "detected_by": [r for r in rules.split(",") if r],
 "machinery_change": None if strengthening == "-" else strengthening,
}
json.dump(meta, open(os.path.join(dst, "meta.json"), "w"), indent=1)
print("stored", dst)
