#!/usr/bin/env python3
"""dedupe_imports.py <file.go>... : remove duplicate lines inside the first import ( … ) block."""
import sys,re
for f in sys.argv[1:]:
    s=open(f).read()
    m=re.search(r'^import \(\n(.*?)^\)', s, re.S|re.M)
    if not m: continue
    seen=set(); out=[]
    for l in m.group(1).split('\n'):
        k=l.strip()
        if k.startswith('"') or re.match(r'^\w+ "', k):
            if k in seen: continue
            seen.add(k)
        out.append(l)
    s=s[:m.start(1)]+'\n'.join(out)+s[m.end(1):]
    open(f,'w').write(s)
