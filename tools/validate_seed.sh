#!/bin/bash
# validate_seed.sh <dir-with-patch.diff+demo_test.go> <package-dir-for-demo (. or mocks)> [test-regex]
# In a scratch worktree: demo passes without the change, fails with it, existing suite passes with it.
set -u
D="$1"; PKG="${2:-.}"; RE="${3:-TestSeed}"
export GOFLAGS=-mod=mod GOPROXY=off GOSUMDB=off GOTOOLCHAIN=local
W=/tmp/validate_seed_$$
git -C /repo worktree add -q --detach $W HEAD || exit 2
trap 'git -C /repo worktree remove --force '$W EXIT
cd $W
cp "$D/demo_test.go" $PKG/zz_seed_demo_test.go
echo "--- demo WITHOUT change (expect ok)"
go test -vet=off -count=1 -timeout 5m -run "$RE" ./$PKG 2>&1 | tail -3
git apply "$D/patch.diff" || { echo "patch does not apply"; exit 2; }
echo "--- demo WITH change (expect FAIL)"
go test -vet=off -count=1 -timeout 5m -run "$RE" ./$PKG 2>&1 | tail -6 | cut -c1-300
rm $PKG/zz_seed_demo_test.go
echo "--- existing suite WITH change (expect ok)"
go test -vet=off -count=1 -timeout 20m . ./mocks/ ./examples/... 2>&1 | grep -v "no test files" | tail -4
