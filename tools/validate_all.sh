#!/bin/bash
for s in "$@"; do
  echo "######## $s"
  pkg=.
  grep -q "^package mocks" /tmp/seed_${s}_out/demo_test.go && pkg=mocks
  /verif/tools/validate_seed.sh /tmp/seed_${s}_out $pkg 2>&1 | tail -12
done
