#!/usr/bin/env python3
"""Regenerates /verif/MANIFEST.json from the table below (single source of truth for claims)."""
import json, sys

PENDING = "check not built yet in this round (design in DESIGN.md §5); not claimed until its rules run clean on the pinned tree"

# id -> dict(claimed, text, note, technique)
P = {
 "C02": dict(claimed=True,
   text="Ordering of a history is not a code shape. Decided on every CFG path: the structural necessary conditions of the retry-level protocol (route-once per message in the partition worker, park guard and no forward below the high watermark, sent-before-buffered retry order with the bounce state set, ordered flush + clear of parked buffers, single produce request in flight per broker worker, FIFO use of the retry queue).",
   note="Does not decide the interleaving argument; value/schedule-dependent reordering (Retry.Max=0, abandoned broker) has no structural signature and is not covered.",
   technique="SSA path-counting, must-precede and guard queries; who-may-store/send tables (custom go/ssa analyzer)"),
 "C03": dict(claimed=True,
   text="Structural necessary conditions decided on every path of consumer.go: deliver only under offset >= child.offset and advance to offset+1; provenance of every field of the delivered message; fetch request built from the same subscription; acks WaitGroup pairing and Add/feed/Wait/handle order; every failed subscription redispatched exactly once; tabled senders/writers; a truncated-record response grows the fetch size or, at the configured maximum, reports ErrMessageTooLarge and steps over the record.",
   note="Offset arithmetic of legacy v1 wrappers, the overflow clamp of the doubled fetch size and progress under faults in general are numeric/liveness questions and not covered.",
   technique="SSA guard (dominating-predicate) and provenance matching, exactly-once path counting per loop iteration"),
 "C11": dict(claimed=True,
   text="Decided on every path of parseResponse: the append of a batch's messages is guarded by not-control and by the read-committed filter (and skipped only when transactional AND aborted), unfiltered under ReadUncommitted; parseRecords precedes the filters; aborted set insert/pop/delete guards; index sorted by FirstOffset; isolation level sent in the request.",
   note="State is per fetch response: transactions spanning responses and completeness of the broker's index are not covered.",
   technique="SSA guard queries with canonical predicates, must-precede/must-follow path queries"),
 "C18": dict(claimed=True,
   text="Decided on every path: producer interceptors only on the first pass (guard retries == 0); every send on Messages() preceded by exactly one interceptor application to that element, with the slow-reader loop's first element (already intercepted by the outer loop) evaluated separately by pruning branches on the induction variable; OnSend/OnConsume only inside the recover wrapper after a deferred recover().",
   note="What an interceptor does to a message and panics outside the interceptor call are not covered.",
   technique="SSA guard queries, per-iteration path counting with induction-variable branch pruning, who-may-call table"),
 "C04": dict(claimed=True,
   text="Decided by provenance/guard/path analysis on the current source: reported offset = block.Offset + index; append and record added together exactly once with no error return after the append; record key/value/headers come from the message being added; offset deltas are element indexes; partition chosen once and range-checked before indexing; symmetric byte/count accounting.",
   note="Codec output and per-version framing bytes are not covered here (C09 decides encoder/decoder agreement); broker behaviour is outside the code.",
   technique="SSA provenance matching (where does this operand come from), guard and path queries"),
 "C05": dict(claimed=True,
   text="Structural necessary conditions of the sequence/epoch discipline decided on every path: sequence taken once under Idempotent ∧ retries==0 ∧ flags==0 by a single caller; epoch bump only for sequenced failures; batch identity provenance; duplicate-sequence = success and the full case→action table; forced rollover before mixing epochs; Validate's four idempotence constraints; whole-batch failure on budget exhaustion.",
   note="The broker's dedup rules, lost acknowledgements and cross-partition epoch bumps while batches are in flight are not decided.",
   technique="SSA guard queries, case→action table extraction from switch CFGs, provenance matching"),
 "C16": dict(claimed=True,
   text="Decided with guard/path rules: overflow test before every add and wait when it holds; wouldOverflow returns true on each of the three limit predicates (canonical comparisons); oversized messages rejected at the dispatcher; readyToFlush triggers, output enabled exactly under timerFired ∨ readyToFlush, timer arming and reset.",
   note="The size estimate versus real wire size and timing are not covered.",
   technique="SSA guard queries over canonical predicates incl. bool-phi (&&/||) conditions, phi-edge analysis"),
 "C17": dict(claimed=True,
   text="Every successful return of the built-in partitioners is proved to lie in [0, numPartitions) by an interval analysis relative to the symbolic partition count (round-robin cursor invariant computed from all stores; rand.Intn contract trusted); fallback only for nil keys, Reset before Write, consistency iff keyed; no self-fallback and options use their arguments; the producer's partition-list choice, zero-partition refusal, range check and error handling.",
   note="Equality with the Java client's hash and uniformity are not covered; rand.Intn(k) ∈ [0,k) is a trusted library contract.",
   technique="abstract interpretation (symbolic intervals) over SSA + guard/provenance rules"),
 "C06": dict(claimed=True,
   text="Decided on every path of offset_manager.go: monotone mark / downward-only reset with dirty and metadata set on the same path; dirty cleared only when position and metadata still equal what was committed; commit blocks built from the dirty partition's own position under its lock and acknowledged against the request's own block; request identity; ordered, bounded final flush in Close; NextOffset fallback; only ErrNoError acknowledges; all pom/om state accessed under its lock (lockset analysis with inferred entry requirements).",
   note="That a later commit is actually issued (ticker/liveness) and coordinator behaviour are not decided.",
   technique="SSA guard/path/provenance rules + interprocedural must-lockset analysis"),
 "C07": dict(claimed=True,
   text="Decided on every path of consumer_group.go: Setup before claims; cancel→wait→(once) Cleanup→final commit→heartbeat stop; single call sites of the handler methods; Consume always releases; claim goroutines counted, Done and cancel deferred; claim start offset provenance and the out-of-range fallback; identity fields of join/sync/heartbeat/leave/commit; sibling agreement of the join and sync switches, member-id reset when fenced, budget-guarded retries; group lock held for the whole session.",
   note="Coverage of the log across sessions and commit-before-return under coordinator faults are behavioural and not covered.",
   technique="SSA must-precede/must-follow queries, literal-field provenance, sibling-switch agreement, lockset"),
 "C14": dict(claimed=True,
   text="Decided on every path of broker.go: send is one critical section of Broker.lock in which the id is read, the request written, the id incremented and the promise (carrying the written id) enqueued; the receive loop gives each promise exactly one outcome, a packet only after both reads, the header decode and the id comparison succeeded; every error becomes sticky; queue capacity MaxOpenRequests-1; all connection I/O goes through readFull/write which set deadlines; sendAndReceive awaits its promise. The slot-before-write clause is violated on the pinned tree and listed as known finding F7.",
   note="Server behaviours, Close racing with calls, fairness are not covered. F7 is recorded in known-findings.txt with a demonstration.",
   technique="SSA exactly-once path counting, guard queries, phi-edge (sticky state) analysis, who-may-call tables, lockset"),
 "C15": dict(claimed=True,
   text="Decided: all shared client state under client.lock with write mode for writes (interprocedural lockset incl. the helpers documented as needing the lock); metadata changes always paired with the derived-list change in the same function; per-error-class effect table of updateMetadata extracted from the switch CFG; sorted lists and exactly-the-leaderless skip; cachedLeader's guards; broker reconciliation; candidate loops set the failed broker aside and resurrect seeds before retrying; read paths refresh once on a miss.",
   note="Folding of arbitrary response sequences and what concurrent readers observe beyond the lock discipline are not decided.",
   technique="interprocedural must-lockset analysis + SSA path/guard rules + case→effect table extraction"),
 "C12": dict(claimed=True,
   text="Structural necessary conditions of clean shutdown decided on the current source: WaitGroup Add/Done pairing of fan-out helpers (the pipeline groups via the shared C01/C03/C07 rules); a frozen per-field table of close() sites with once/defer attributes (a second closer, or a closer outside its sync.Once, is reported); close/wait hand-shakes of client, broker, offset manager, heartbeat, partition consumer, subscription manager; every blocking select / bare timer wait of the long-running loops watches the component's shutdown channel; tabled senders for channels closed by their only sender.",
   note="Absence of deadlock in general and send/close races needing a happens-before argument (consumerGroup.errors, partitionConsumer.errors/trigger) are not covered. The close-site table is a frozen semantic table keyed by field, not by position.",
   technique="SSA path queries (must-precede/must-follow), who-may-close/send tables, select-state inspection"),
 "C19": dict(claimed=True,
   text="Decided: retryOnError attempts before returning; controller-bound closures look the controller up on each attempt, refresh it on NOT_CONTROLLER and return an error type the retry predicate recognises; nil only for a present item with ErrNoError (also for the collect-errors idiom); routing table of the leader/coordinator/controller-bound operations by provenance of the *Broker receiver (through local maps keyed by broker); every constant request version stored anywhere is guarded by a configured-version test implying the type's own requiredVersion() (tables evaluated statically). One known finding (F15).",
   note="How many controller moves happen versus Retry.Max, and the brokers' verdicts, are run-time facts not covered.",
   technique="SSA provenance classification, must-precede queries, static evaluation of requiredVersion() switch tables against IsAtLeast guards"),
 "C20": dict(claimed=True,
   text="Decided on every path of the mocks package: at most one outcome per input message in the mock async producer, sync producer returns the scripted result or the reported deviation's error; expectations consumed from the head one per message (len(msgs) for batches) under a non-empty test; partition = configured partitioner over configured partition count, stored and returned; lastOffset++ once per success, consumer offsets from the atomic counter; the ErrorReporter is called exactly at the tabled deviation sites, once per message; expectation state under the mock's mutex (lockset).",
   note="Behaviour of user-supplied checkers/partitioners and channel-capacity effects are not covered. The Errorf site table is frozen per function (count), not per position.",
   technique="SSA per-iteration path counting, provenance matching, who-may-call table, lockset"),
 "C08": dict(claimed=True,
   text="PARTIAL claim: only the eligibility guards necessary for 'only to a member subscribed to that topic, no unknown member, no nonexistent partition' are decided (round-robin hasTopic guard; sticky assign/reassign eligibility; prior ownership kept only if the partition exists and the owner still subscribes, otherwise re-queued as unassigned; every member registered and emitted; range builds member lists from subscriptions and plans each topic over its own partition list). Completeness and uniqueness of the plan are algorithmic and NOT decided.",
   note="That every partition is assigned, and to exactly one member, needs reasoning about the algorithm's state (execution or a solver) and is outside this technique family.",
   technique="SSA guard (dominating-predicate) queries and provenance matching"),
 "C10": dict(claimed=True,
   text="Decided by abstract interpretation of integer bounds over SSA (lower bound, input-bounded/constant upper bound, bit widths of the target architecture, branch refinement, getter summaries computed from real_decoder.go and trusted only after the paired error test) plus guard/path rules: no decoding step whose error is non-nil is answered with `return nil` (434 steps; only the tabled ErrInsufficientData idiom is exempt); every raw-buffer access and cursor advance of realDecoder is justified by a still-valid remaining() ≥ need test (bulk loops by remaining() ≥ w·n); every make() reachable from the decoders of untrusted data has a non-negative, input-bounded or small-constant size; response-size cap; whole-buffer-consumed and length/CRC mismatch = error; decode loops make progress.",
   note="Memory use of decompression, third-party codecs, CRC collision strength and semantic validity of decoded values are not covered. Trusted library contracts: binary.Varint/Uvarint return |n| ≤ len(buf); binary.PutVarint ≤ 10.",
   technique="abstract interpretation (interval-like domain with symbolic 'input-bounded' bound) over go/ssa + dominating-guard validity analysis"),
 "C09": dict(claimed=True,
   text="Shape agreement (not value equality) decided for all 136 types that have both encode and decode and every version 0..max+1 their code mentions: finite automata over wire tokens are built from the SSA control-flow graphs (nested calls spliced, version branches evaluated, data branches non-deterministic, error returns rejecting) and L(encoder) ⊆ L(decoder) is checked by subset construction; push/pop balance; allocateBody key table; sizing pass vs writing pass of every put* method compared as symbolic linear forms per nil-condition; length/CRC field ranges and polynomial dispatch.",
   note="Which bytes are written (values), compression codecs, varint arithmetic and agreement with the Kafka specification are not covered. Exclusions (request wrapper, ControlRecord, one nested-only block) are tabled with reasons in rules_c09.go.",
   technique="automata extraction from go/ssa CFGs + language inclusion (subset construction); symbolic size summaries"),
 "C01": dict(claimed=True,
   text="Structural necessary conditions of exactly-one-outcome decided on every CFG path of the producer pipeline (emit/Done pairing, no partially disposed batch, marker accounting, exactly-once routing of every partition set, retry budget guards, Wait-before-close, sync-producer expectation protocol). It is not a proof of the behaviour: cross-goroutine liveness of the retry loop is not covered.",
   note="Trusts go/ssa's model of the source; disposer functions are computed as a fixed point from the source, channel/field anchors are named in rules_c01.go.",
   technique="SSA path-counting and must-precede/must-follow queries (custom analyzer over go/ssa CFG)"),
 "C13": dict(claimed=True,
   text="PARTIAL claim — the property as a whole (sizes differ by at most one, Kafka's balance criterion, fixed point of re-planning, keep-on-leave / no-shuffle-on-join) is a numeric relation over the algorithm's outputs and is NOT decided. Decided are four structural necessary conditions: range hands member i the slice partitions[f(i):f(i+1)] for one rounding function f (contiguous, telescoping ranges); round-robin examines and assigns members[i % n] and advances the cursor by exactly one per assignment and per skipped member; every sticky move goes through reassignPartition → getTheActualPartitionToBeMoved (reverse pair looked up, its partition returned) and is recorded by movePartition, which is what prevents pairwise swaps within a topic; of several claimants of a partition the highest generation becomes the current owner and the next the previous owner.",
   note="Breaking any of the four clauses breaks the corresponding clause of the property (each has a seeded or self-test mutant with a failing plan); holding them does not establish balance or stickiness.",
   technique="SSA structural expression matching (equality modulo i -> i+1), phi/cursor analysis, who-may-call and provenance queries"),
}
NA = {
}

checks = []
na = []
for i in range(1, 21):
    pid = "C%02d" % i
    if pid in P and P[pid]["claimed"]:
        d = P[pid]
        checks.append({
            "property_id": pid,
            "quick_cmd": "./check.sh %s quick" % pid,
            "thorough_cmd": "./check.sh %s thorough" % pid,
            "evidence_file": "/verif/evidence/%s.json" % pid,
            "replay_cmd_template": "./check.sh --replay {path}",
            "engine": "sacheck",
            "level_claimed": {"category": "other", "text": d["text"], "design_ref": "DESIGN.md §5 " + pid},
            "level_note": d["note"],
            "technique": d["technique"],
        })
    else:
        na.append({"property_id": pid, "reason": NA.get(pid, PENDING)})

m = {
 "version": 1,
 "setup_cmd": "cd /verif/sacheck && GOFLAGS=-mod=mod GOPROXY=off GOSUMDB=off GOTOOLCHAIN=local GOWORK=off go build -o /verif/bin/sacheck .",
 "hooks": {
   "guard": "verif",
   "enable": "none needed: the checks read /repo's source with go/packages; no instrumentation is compiled into sarama",
   "baseline_off_cmd": "cd /repo && go test -mod=mod -json -vet=off -count=1 -timeout 25m ./...",
   "source_commits": [],
   "add_only": True,
 },
 "engines": [
   {"name": "sacheck", "path": "/verif/sacheck", "serves_properties": [c["property_id"] for c in checks],
    "kind_free_text": "custom static analyzer over go/packages + go/ssa (x/tools v0.29.0): path/event queries, guard (dominating-predicate) queries, lockset, provenance matching, abstract interpretation of decoder lengths, encoder/decoder automata inclusion"},
 ],
 "checks": checks,
 "not_applicable": na,
 "notes": "All claims are level 'other': structural necessary conditions decided by static analysis on every path of the current source; see DESIGN.md. Known findings: /verif/known-findings.txt.",
}
json.dump(m, open("/verif/MANIFEST.json", "w"), indent=1)
print("MANIFEST.json:", len(checks), "checks,", len(na), "not_applicable")
