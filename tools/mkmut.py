#!/usr/bin/env python3
"""mkmut.py <prop> <name> <file> <expect-rule[,rule]> ; stdin: old text, a line '====', new text."""
import sys, json, os
prop, name, file, expect = sys.argv[1:5]
note = sys.argv[5] if len(sys.argv) > 5 else ""
txt = sys.stdin.read()
old, new = txt.split("\n====\n")
new = new.rstrip("\n") if not old.endswith("\n") else new
src = open("/repo/" + file).read()
n = src.count(old.rstrip("\n"))
old = old.rstrip("\n"); new = new.rstrip("\n")
if n != 1:
    print("WARNING: old text occurs", n, "times in", file); sys.exit(1)
os.makedirs("/verif/mutants/" + prop, exist_ok=True)
json.dump({"name": name, "file": file, "old": old, "new": new, "expect": [e for e in expect.split(",") if e], "note": note},
          open("/verif/mutants/%s/%s.json" % (prop, name), "w"), indent=1)
print("ok", prop, name)
