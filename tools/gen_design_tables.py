#!/usr/bin/env python3
"""Regenerates the generated blocks of DESIGN.md (between <!-- X-BEGIN --> / <!-- X-END --> markers):
   SEEDED-TABLE from /verif/seeded/*/meta.json, COUNTS from /verif/evidence/*.json and /verif/mutants."""
import json, os, re, glob
D = "/verif/DESIGN.md"
s = open(D).read()
def put(tag, body):
    global s
    a, b = "<!-- %s-BEGIN -->" % tag, "<!-- %s-END -->" % tag
    i, j = s.index(a) + len(a), s.index(b)
    s = s[:i] + "\n" + body.rstrip("\n") + "\n" + s[j:]
rows = []
for d in sorted(glob.glob("/verif/seeded/*/meta.json")):
    m = json.load(open(d))
    sid = os.path.basename(os.path.dirname(d))
    patch = open(os.path.join(os.path.dirname(d), "patch.diff")).read()
    files = sorted(set(re.findall(r"^\+\+\+ b/(\S+)", patch, re.M)))
    summary = m.get("summary") or ""
    first = "yes" if m["detected_on_first_run"] else "**no**"
    by = ", ".join("`%s`" % r for r in m["detected_by"]) or "—"
    rows.append("| %s | %s | %s | %s | %s | %s |" % (sid, ", ".join(files), summary, first, by, m.get("machinery_change") or "—"))
tbl = "| seed | file(s) | change (what it needs is in `meta.json`) | reported on first run | reported now by | what was changed in the machinery |\n|---|---|---|---|---|---|\n" + "\n".join(rows)
n = len(rows); first = sum(1 for r in rows if "| yes |" in r)
tbl += "\n\n%d seeded changes kept; %d were reported by the checks as they stood, the others after the strengthening named in the last column; all of them are now self-test mutants (`mutants/<id>/seed-*.json`)." % (n, first)
put("SEEDED-TABLE", tbl)
# counts
obl, mut = [], []
for i in range(1, 21):
    pid = "C%02d" % i
    f = "/verif/evidence/%s.json" % pid
    if os.path.exists(f):
        e = json.load(open(f))
        c = e.get("coverage", {})
        nob = c.get("obligations")
        obl.append("%s %s" % (pid, nob))
    ms = glob.glob("/verif/mutants/%s/*.json" % pid)
    eq = sum(1 for x in ms if json.load(open(x)).get("expect") == ["NONE"])
    mut.append("%s %d+%d" % (pid, len(ms) - eq, eq))
put("COUNTS", "Obligations on the current tree: " + ", ".join(obl) + ".\n\nSelf-test variants (breaking mutants + behaviour-preserving variants that must stay silent): " + ", ".join(mut) + ".")
open(D, "w").write(s)
print("DESIGN.md tables regenerated:", n, "seeds")
