#!/usr/bin/env python3
"""patch2mut.py <prop> <name> <patch.diff> <expect-rules> [note] : unified diff -> multi-edit mutant json."""
import sys, json, os, re
prop, name, patch, expect = sys.argv[1:5]
note = sys.argv[5] if len(sys.argv) > 5 else ""
edits = []
cur_file = None
old, new = [], []
cur_line = 0
def flush():
    global old, new
    if cur_file and (old or new):
        edits.append({"file": cur_file, "old": "\n".join(old), "new": "\n".join(new), "line": cur_line})
    old, new = [], []
for line in open(patch).read().split("\n"):
    if line.startswith("diff --git"):
        flush(); cur_file = None
    elif line.startswith("+++ b/"):
        cur_file = line[6:]
    elif line.startswith("--- ") or line.startswith("index ") or line.startswith("new file") or line.startswith("\\"):
        continue
    elif line.startswith("@@"):
        flush()
        cur_line = int(re.search(r"\+(\d+)", line).group(1))
    elif cur_file is not None:
        if line.startswith("-"): old.append(line[1:])
        elif line.startswith("+"): new.append(line[1:])
        elif line.startswith(" ") or line == "":
            t = line[1:] if line.startswith(" ") else ""
            old.append(t); new.append(t)
flush()
# trailing empty context lines from the split
for e in edits:
    e["old"] = e["old"].rstrip("\n"); e["new"] = e["new"].rstrip("\n")
    if not os.path.exists("/repo/" + e["file"]):
        if e["old"]:
            print("WARNING: file", e["file"], "missing")
        continue  # a file the change adds
    src = open("/repo/" + e["file"]).read()
    if src.count(e["old"]) == 0:
        print("WARNING: hunk of", e["file"], "does not occur")
os.makedirs("/verif/mutants/" + prop, exist_ok=True)
json.dump({"name": name, "edits": edits, "expect": [x for x in expect.split(",") if x], "note": note},
          open("/verif/mutants/%s/%s.json" % (prop, name), "w"), indent=1)
print("ok", prop, name, len(edits), "edits")
