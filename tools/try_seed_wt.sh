#!/bin/bash
# try_seed_wt.sh <dir-with-patch.diff> [props...] : like try_seed.sh, but in a scratch worktree of /repo HEAD (removed
# afterwards), so that several changes can be tried in parallel and /repo's working tree is never touched.  The
# properties are analysed four at a time.
set -u
D="$1"; shift
PROPS="${*:-C01 C02 C03 C04 C05 C06 C07 C08 C09 C10 C11 C12 C13 C14 C15 C16 C17 C18 C19 C20}"
export GOFLAGS=-mod=mod GOPROXY=off GOSUMDB=off GOTOOLCHAIN=local
W=/tmp/tryw_$(basename "$D")_$$
V=/tmp/tryv_$$
git -C /repo worktree add -q --detach "$W" HEAD || exit 2
trap 'git -C /repo worktree remove --force "$W" >/dev/null 2>&1; rm -rf "$V"' EXIT
git -C "$W" apply "$D/patch.diff" || { echo "patch does not apply"; exit 2; }
mkdir -p "$V"
for p in $PROPS; do mkdir -p "$V/$p"; cp /verif/known-findings.txt "$V/$p/" 2>/dev/null; done
echo $PROPS | tr ' ' '\n' | xargs -P 4 -I{} sh -c "/verif/bin/sacheck -prop {} -repo $W -verif $V/{} > $V/{}.out 2>&1"
caught=""
for p in $PROPS; do
  if grep -q "^VIOLATION" "$V/$p.out"; then
    caught="$caught $p"
    echo "== $p"
    grep -E "^\s+\[(violation|unresolved)\]" "$V/$p.out" | cut -c1-260
  fi
done
echo "CAUGHT-BY:$caught"
