#!/bin/bash
# try_seed_wt.sh <dir-with-patch.diff> : like try_seed.sh, but in a scratch worktree of /repo HEAD (removed afterwards),
# so that several changes can be tried in parallel and /repo's working tree is never touched.
set -u
D="$1"
export GOFLAGS=-mod=mod GOPROXY=off GOSUMDB=off GOTOOLCHAIN=local
W=/tmp/tryw_$(basename "$D")_$$
git -C /repo worktree add -q --detach "$W" HEAD || exit 2
trap 'git -C /repo worktree remove --force "$W" >/dev/null 2>&1; rm -rf /tmp/tryv_$$' EXIT
git -C "$W" apply "$D/patch.diff" || { echo "patch does not apply"; exit 2; }
mkdir -p /tmp/tryv_$$; cp /verif/known-findings.txt /tmp/tryv_$$/ 2>/dev/null
caught=""
for p in C01 C02 C03 C04 C05 C06 C07 C08 C09 C10 C11 C12 C13 C14 C15 C16 C17 C18 C19 C20; do
  out=$(/verif/bin/sacheck -prop $p -repo "$W" -verif /tmp/tryv_$$ 2>&1)
  if echo "$out" | grep -q "^VIOLATION"; then
    caught="$caught $p"
    echo "== $p"
    echo "$out" | grep -E "^\s+\[(violation|unresolved)\]" | cut -c1-260
  fi
done
echo "CAUGHT-BY:$caught"
