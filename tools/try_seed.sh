#!/bin/bash
# try_seed.sh <dir-with-patch.diff> : apply the seeded change to /repo, run every quick check, undo.
# Prints, per property, whether the check raised a VIOLATION and which obligation keys.
set -u
D="$1"
cd /repo || exit 2
if [ -n "$(git status --porcelain)" ]; then echo "repo not clean"; exit 2; fi
git apply "$D/patch.diff" || { echo "patch does not apply"; exit 2; }
trap 'git -C /repo checkout -- . ; git -C /repo clean -fdq' EXIT
caught=""
for p in C01 C02 C03 C04 C05 C06 C07 C08 C09 C10 C11 C12 C13 C14 C15 C16 C17 C18 C19 C20; do
  out=$(/verif/bin/sacheck -prop $p -verif /tmp/seedverif 2>&1)
  if echo "$out" | grep -q "^VIOLATION"; then
    caught="$caught $p"
    echo "== $p"
    echo "$out" | grep -E "^\s+\[(violation|unresolved)\]" | cut -c1-260
  fi
done
echo "CAUGHT-BY:$caught"
